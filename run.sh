#!/bin/bash
# run.sh <property> <quick|thorough>
# Rebuilds the simulator from /repo's current working tree (hooks on: -tags verif),
# then runs the check. Exit 0 = held, 1 = VIOLATION, 2 = harness/build trouble.
set -u
prop="${1:?property}"; tier="${2:?tier}"
cd "$(dirname "$(realpath "$0")")" || exit 2
export VERIF_DIR="$PWD"
export GOFLAGS=-mod=mod GOPROXY=off GOSUMDB=off GOTOOLCHAIN=local CGO_ENABLED=1
mkdir -p bin work replays evidence
cp "${VERIF_REPO:-/repo}"/go.sum sim/go.sum 2>/dev/null
bin="$VERIF_DIR/bin/sim-$prop-$$"
if [ -n "${VERIF_PREBUILT:-}" ] && [ -x "$VERIF_PREBUILT" ]; then
  # tools/matrix.sh builds once per change and runs all five checks with the same binaries
  export VERIF_RACE_BIN=""
  case "$prop" in C07|C19|C10|C11) export VERIF_RACE_BIN="$VERIF_PREBUILT-race" ;; esac
  "$VERIF_PREBUILT" run "$prop" "$tier"; exit $?
fi
if [ "$prop" = "--build-only" ]; then
  bin="$tier"   # run.sh --build-only <output path>: plain and race binaries, nothing run
  . "$VERIF_DIR/build.inc.sh"
  build "$bin-race" -race
  cleanup_scratch
  exit 0
fi
. "$VERIF_DIR/build.inc.sh"
# per-invocation binaries so that concurrent checks do not step on each other
export VERIF_RACE_BIN=""
case "$prop" in
  C07|C19|C10|C11) build "$bin-race" -race; export VERIF_RACE_BIN="$bin-race" ;;
esac
cleanup_scratch
"$bin" run "$prop" "$tier"
rc=$?
rm -f "$bin" "$bin-race"
exit $rc
