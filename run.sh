#!/bin/bash
# run.sh <property> <quick|thorough>
# Rebuilds the simulator from /repo's current working tree (hooks on: -tags verif),
# then runs the check. Exit 0 = held, 1 = VIOLATION, 2 = harness/build trouble.
set -u
prop="${1:?property}"; tier="${2:?tier}"
cd "$(dirname "$(realpath "$0")")" || exit 2
export VERIF_DIR="$PWD"
export GOFLAGS=-mod=mod GOPROXY=off GOSUMDB=off GOTOOLCHAIN=local CGO_ENABLED=1
mkdir -p bin work replays evidence
cp "${VERIF_REPO:-/repo}"/go.sum sim/go.sum 2>/dev/null
# The simulator is built against a scratch copy of plenc's working tree (VERIF_REPO: another
# copy than /repo, e.g. a background run's snapshot) in which cmd/autoyield has put a yield
# point before every synchronisation operation (sync/atomic, sync.Mutex, sync.Map, sync.Pool...),
# in addition to the hand-placed verifYield sites. The copy is removed after the build.
src="${VERIF_REPO:-/repo}"
scratch="$(mktemp -d /tmp/verif-plenc-XXXXXX)" || exit 2
trap 'rm -rf "$scratch" "$VERIF_DIR/bin/autoyield-$$" "$VERIF_DIR"/sim/go.alt.$$.mod "$VERIF_DIR"/sim/go.alt.$$.sum' EXIT
rsync -a --exclude .git "$src"/ "$scratch"/ || { echo "cannot copy $src" >&2; exit 2; }
( cd sim && go build -o "$VERIF_DIR/bin/autoyield-$$" ./cmd/autoyield ) 2>work/build.$$.log || { echo "BUILD FAILED (autoyield):" >&2; cat work/build.$$.log >&2; rm -f work/build.$$.log; exit 2; }
"$VERIF_DIR/bin/autoyield-$$" "$scratch" >work/autoyield.$$.log 2>&1 || { echo "autoyield failed (harness trouble, not a violation):" >&2; cat work/autoyield.$$.log >&2; rm -f work/autoyield.$$.log; exit 2; }
rm -f work/autoyield.$$.log
export VERIF_PLENC_SRC="$scratch"
sed "s|=> /repo\$|=> $scratch|" sim/go.mod > sim/go.alt.$$.mod; cp sim/go.sum sim/go.alt.$$.sum
modflag="-modfile=go.alt.$$.mod"
build() { # build <output> <extra flags...>
  local out="$1"; shift
  ( cd sim && go build $modflag -tags verif "$@" -o "$out.tmp.$$" ./cmd/sim ) 2>work/build.$$.log || {
    echo "BUILD FAILED (harness trouble, not a violation):" >&2; cat work/build.$$.log >&2; rm -f work/build.$$.log; exit 2; }
  rm -f work/build.$$.log
  mv "$out.tmp.$$" "$out"
}
# per-invocation binaries so that concurrent checks do not step on each other
bin="$VERIF_DIR/bin/sim-$prop-$$"
build "$bin"
export VERIF_RACE_BIN=""
case "$prop" in
  C07|C19|C10|C11) build "$bin-race" -race; export VERIF_RACE_BIN="$bin-race" ;;
esac
rm -rf "$scratch" "$VERIF_DIR/bin/autoyield-$$" sim/go.alt.$$.mod sim/go.alt.$$.sum
"$bin" run "$prop" "$tier"
rc=$?
rm -f "$bin" "$bin-race"
exit $rc
