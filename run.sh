#!/bin/bash
# run.sh <property> <quick|thorough>
# Rebuilds the simulator from /repo's current working tree (hooks on: -tags verif),
# then runs the check. Exit 0 = held, 1 = VIOLATION, 2 = harness/build trouble.
set -u
prop="${1:?property}"; tier="${2:?tier}"
cd "$(dirname "$(realpath "$0")")" || exit 2
export VERIF_DIR="$PWD"
export GOFLAGS=-mod=mod GOPROXY=off GOSUMDB=off GOTOOLCHAIN=local CGO_ENABLED=1
mkdir -p bin work replays evidence
cp /repo/go.sum sim/go.sum 2>/dev/null
# VERIF_REPO (debugging aid, e.g. background runs against a snapshot): build against another copy of plenc
modflag=""
if [ -n "${VERIF_REPO:-}" ]; then
  sed "s|=> /repo\$|=> $VERIF_REPO|" sim/go.mod > sim/go.alt.$$.mod; cp sim/go.sum sim/go.alt.$$.sum
  modflag="-modfile=go.alt.$$.mod"
fi
build() { # build <output> <extra flags...>
  local out="$1"; shift
  ( cd sim && go build $modflag -tags verif "$@" -o "$out.tmp.$$" ./cmd/sim ) 2>work/build.$$.log || {
    echo "BUILD FAILED (harness trouble, not a violation):" >&2; cat work/build.$$.log >&2; rm -f work/build.$$.log; exit 2; }
  rm -f work/build.$$.log
  mv "$out.tmp.$$" "$out"
}
# per-invocation binaries so that concurrent checks do not step on each other
bin="$VERIF_DIR/bin/sim-$prop-$$"
build "$bin"
export VERIF_RACE_BIN=""
case "$prop" in
  C07|C19|C10|C11) build "$bin-race" -race; export VERIF_RACE_BIN="$bin-race" ;;
esac
"$bin" run "$prop" "$tier"
rc=$?
rm -f "$bin" "$bin-race" sim/go.alt.$$.mod sim/go.alt.$$.sum
exit $rc
