#!/bin/bash
# replay.sh <replay file>: rebuild from /repo's working tree and re-execute a replay file.
# exit 1 + VIOLATION line if it reproduces, 0 if not, 2 on harness trouble.
set -u
f="$(realpath "${1:?replay file}")"
cd "$(dirname "$(realpath "$0")")" || exit 2
export VERIF_DIR="$PWD"
export GOFLAGS=-mod=mod GOPROXY=off GOSUMDB=off GOTOOLCHAIN=local CGO_ENABLED=1
mkdir -p bin work
cp /repo/go.sum sim/go.sum 2>/dev/null
# same build as run.sh: against a scratch copy of /repo's working tree with automatic yield points
race=""
grep -q '"race_build": true' "$f" && race="-race"
bin="$VERIF_DIR/bin/replay-$$"
. "$VERIF_DIR/build.inc.sh"
if [ -n "$race" ]; then build "$bin" -race; fi
cleanup_scratch
if [ -n "$race" ]; then
  export GORACE="log_path=$VERIF_DIR/work/replayrace-$$ halt_on_error=0 exitcode=0 history_size=3 suppress_equal_stacks=0 suppress_equal_addresses=0"
fi
"$bin" replay "$f"; rc=$?
rm -f "$bin" $VERIF_DIR/work/replayrace-$$.*
exit $rc
