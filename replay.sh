#!/bin/bash
# replay.sh <replay file>: rebuild from /repo's working tree and re-execute a replay file.
# exit 1 + VIOLATION line if it reproduces, 0 if not, 2 on harness trouble.
set -u
f="$(realpath "${1:?replay file}")"
cd "$(dirname "$(realpath "$0")")" || exit 2
export VERIF_DIR="$PWD"
export GOFLAGS=-mod=mod GOPROXY=off GOSUMDB=off GOTOOLCHAIN=local CGO_ENABLED=1
mkdir -p bin work
cp /repo/go.sum sim/go.sum 2>/dev/null
# same build as run.sh: a scratch copy of /repo's working tree with a yield point before every
# synchronisation operation (cmd/autoyield), removed after the build
scratch="$(mktemp -d /tmp/verif-plenc-XXXXXX)" || exit 2
trap 'rm -rf "$scratch" "$VERIF_DIR/bin/autoyield-$$" "$VERIF_DIR"/sim/go.alt.$$.mod "$VERIF_DIR"/sim/go.alt.$$.sum' EXIT
rsync -a --exclude .git /repo/ "$scratch"/ || exit 2
( cd sim && go build -o "$VERIF_DIR/bin/autoyield-$$" ./cmd/autoyield ) || { echo "build failed" >&2; exit 2; }
"$VERIF_DIR/bin/autoyield-$$" "$scratch" >/dev/null || { echo "autoyield failed" >&2; exit 2; }
export VERIF_PLENC_SRC="$scratch"
sed "s|=> /repo\$|=> $scratch|" sim/go.mod > sim/go.alt.$$.mod; cp sim/go.sum sim/go.alt.$$.sum
race=""
grep -q '"race_build": true' "$f" && race="-race"
bin="$VERIF_DIR/bin/replay-$$"
( cd sim && go build -modfile=go.alt.$$.mod -tags verif $race -o "$bin" ./cmd/sim ) || { echo "build failed" >&2; exit 2; }
rm -rf "$scratch" "$VERIF_DIR/bin/autoyield-$$" sim/go.alt.$$.mod sim/go.alt.$$.sum
if [ -n "$race" ]; then
  export GORACE="log_path=$VERIF_DIR/work/replayrace-$$ halt_on_error=0 exitcode=0 history_size=3 suppress_equal_stacks=0 suppress_equal_addresses=0"
fi
"$bin" replay "$f"; rc=$?
rm -f "$bin" $VERIF_DIR/work/replayrace-$$.*
exit $rc
