#!/bin/bash
# setup: build the framework from files on disk only (warms the Go build cache,
# including the race-enabled standard library).
set -e
export GOFLAGS=-mod=mod GOPROXY=off GOSUMDB=off GOTOOLCHAIN=local CGO_ENABLED=1
cd "$(dirname "$(realpath "$0")")"
export VERIF_DIR="$PWD"
mkdir -p bin work replays evidence
cp /repo/go.sum sim/go.sum
cd sim
go build -tags verif ./...
go build -tags verif -o $VERIF_DIR/bin/sim ./cmd/sim
go build -tags verif -race -o $VERIF_DIR/bin/sim-race ./cmd/sim
echo setup ok
