#!/bin/bash
# setup: build the framework from files on disk only (warms the Go build cache,
# including the race-enabled standard library).
set -e
export GOFLAGS=-mod=mod GOPROXY=off GOSUMDB=off GOTOOLCHAIN=local CGO_ENABLED=1
cd /verif
mkdir -p bin work replays evidence
cp /repo/go.sum sim/go.sum
cd sim
go build -tags verif ./...
go build -tags verif -o /verif/bin/sim ./cmd/sim
go build -tags verif -race -o /verif/bin/sim-race ./cmd/sim
echo setup ok
