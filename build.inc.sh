# build.inc.sh - sourced by run.sh and replay.sh (expects: VERIF_DIR, cwd = $VERIF_DIR, $bin = output
# path of the plain binary). Afterwards: the plain binary is built, build <out> <flags...> builds
# further variants against the same scratch copy, and cleanup_scratch removes the copy.
# The simulator is built against a scratch copy of plenc's working tree (VERIF_REPO: another
# copy than /repo, e.g. a background run's snapshot) in which cmd/autoyield has put a yield
# point before every synchronisation operation (sync/atomic, sync.Mutex, sync.Map, sync.Pool...),
# in addition to the hand-placed verifYield sites. The copy is removed after the build.
src="${VERIF_REPO:-/repo}"
scratch="$(mktemp -d /tmp/verif-plenc-XXXXXX)" || exit 2
trap 'rm -rf "$scratch" "$VERIF_DIR/bin/autoyield-$$" "$VERIF_DIR"/sim/go.alt.$$.mod "$VERIF_DIR"/sim/go.alt.$$.sum' EXIT
( cd sim && go build -o "$VERIF_DIR/bin/autoyield-$$" ./cmd/autoyield ) 2>work/build.$$.log || { echo "BUILD FAILED (autoyield):" >&2; cat work/build.$$.log >&2; rm -f work/build.$$.log; exit 2; }
export VERIF_PLENC_SRC="$scratch"
sed "s|=> /repo\$|=> $scratch|" sim/go.mod > sim/go.alt.$$.mod; cp sim/go.sum sim/go.alt.$$.sum
modflag="-modfile=go.alt.$$.mod"
# instrument <mode>: fresh scratch copy of the tree, rewritten (full | nolock) or left as it is (none)
instrument() {
  rm -rf "$scratch"; mkdir -p "$scratch"
  rsync -a --exclude .git "$src"/ "$scratch"/ || { echo "cannot copy $src" >&2; exit 2; }
  case "$1" in
    full)   "$VERIF_DIR/bin/autoyield-$$" "$scratch" >/dev/null 2>work/autoyield.$$.log ;;
    nolock) "$VERIF_DIR/bin/autoyield-$$" "$scratch" -nolock >/dev/null 2>work/autoyield.$$.log ;;
    none)   : ;;
  esac
}
trybuild() { # trybuild <output> <extra flags...>
  local out="$1"; shift
  ( cd sim && go build $modflag -tags verif "$@" -o "$out.tmp.$$" ./cmd/sim ) 2>work/build.$$.log && mv "$out.tmp.$$" "$out"
}
# The rewriting works on names, not types: if the rewritten copy does not compile (say, a Lock method
# on a type without TryLock) fall back to plain yield points, then to the hand-placed hooks alone.
built=""
for mode in full nolock none; do
  instrument $mode
  if [ -s work/autoyield.$$.log ]; then cat work/autoyield.$$.log >&2; fi
  if trybuild "$bin"; then built=$mode; break; fi
done
rm -f work/autoyield.$$.log
if [ -z "$built" ]; then
  echo "BUILD FAILED (harness trouble, not a violation):" >&2; cat work/build.$$.log >&2; rm -f work/build.$$.log; exit 2
fi
[ "$built" != full ] && echo "note: automatic yield points reduced to mode '$built' (the fully rewritten copy did not compile)" >&2
build() { trybuild "$@" || { echo "BUILD FAILED (harness trouble, not a violation):" >&2; cat work/build.$$.log >&2; rm -f work/build.$$.log; exit 2; }; }
rm -f work/build.$$.log
cleanup_scratch() { rm -rf "$scratch" "$VERIF_DIR/bin/autoyield-$$" "$VERIF_DIR"/sim/go.alt.$$.mod "$VERIF_DIR"/sim/go.alt.$$.sum; }
