// autoyield rewrites a scratch copy of plenc so that the simulator's scheduler
// gets control before every synchronisation operation the code performs - not
// only at the hand-placed verifYield sites. A data-race-free program can only
// be influenced by other goroutines at its synchronisation operations, so with
// a yield point before each of them the scheduler can produce every
// interleaving that matters (the race build looks after the rest: accesses
// that are not ordered by any synchronisation).
//
// For every statement of every function body that contains
//   - a call of a function of sync/atomic, or
//   - a method call whose name is that of a sync / sync/atomic operation
//     (Load, Store, CompareAndSwap, Swap, Add, LoadOrStore, Lock, Get, Put, ...;
//     a name match is enough: a superfluous yield point is harmless),
//
// the statement `verifAutoYield("auto.<kind>")` is inserted before it (and at
// the top of the body of a loop whose condition contains one: spin loops). A
// statement `x.Lock()` / `x.RLock()` is preceded by `verifAutoAwait(x.TryLock,
// x.Unlock)`, which yields until the lock is free, so that the one running
// goroutine never blocks for real. Each rewritten package gets a file
// zz_verif_auto.go with the two helpers. The copy is built with -tags verif.
//
// usage: autoyield <dir of the scratch copy> [-nolock]
package main

import (
	"bytes"
	"fmt"
	"go/ast"
	"go/format"
	"go/parser"
	"go/token"
	"os"
	"path/filepath"
	"strconv"
	"strings"
)

var atomicMethods = map[string]string{
	"Load": "atomic", "Store": "atomic", "CompareAndSwap": "atomic", "Swap": "atomic", "Add": "atomic", "And": "atomic", "Or": "atomic",
	"LoadOrStore": "call", "LoadAndDelete": "call", "Delete": "call", "Range": "call", "CompareAndDelete": "call", "StoreOrSwap": "call",
	"Lock": "lock", "Unlock": "lock", "RLock": "lock", "RUnlock": "lock", "TryLock": "lock", "TryRLock": "lock",
	"Get": "call", "Put": "call", "Do": "call", "Wait": "call", "Signal": "call", "Broadcast": "call",
}

var noLock bool

type rewriter struct {
	pkgIdents  map[string]string // local name -> import path
	insertions int
	loops      bool // also mark the top of every loop body (not in plenccore: its loops run per byte)
}

func main() {
	if len(os.Args) < 2 || len(os.Args) > 3 || (len(os.Args) == 3 && os.Args[2] != "-nolock") {
		fmt.Fprintln(os.Stderr, "usage: autoyield <dir> [-nolock]")
		os.Exit(2)
	}
	root := os.Args[1]
	// -nolock: plain yield points before Lock / RLock too, no TryLock-based waiting (for code
	// whose Lock methods belong to types without TryLock; the build falls back to this)
	noLock = len(os.Args) == 3
	total := 0
	pkgs := map[string]string{} // dir -> package name
	err := filepath.Walk(root, func(path string, info os.FileInfo, err error) error {
		if err != nil {
			return err
		}
		if info.IsDir() {
			if n := info.Name(); n == ".git" || n == "cmd" || n == "testdata" {
				return filepath.SkipDir
			}
			return nil
		}
		n := info.Name()
		if !strings.HasSuffix(n, ".go") || strings.HasSuffix(n, "_test.go") || strings.HasPrefix(n, "verif_") || n == "zz_verif_auto.go" {
			return nil
		}
		name, k, err := rewriteFile(path)
		if err != nil {
			return fmt.Errorf("%s: %w", path, err)
		}
		total += k
		if k > 0 {
			pkgs[filepath.Dir(path)] = name
		}
		return nil
	})
	if err != nil {
		fmt.Fprintln(os.Stderr, "autoyield:", err)
		os.Exit(2)
	}
	for dir, name := range pkgs {
		if err := writeHelpers(dir, name); err != nil {
			fmt.Fprintln(os.Stderr, "autoyield:", err)
			os.Exit(2)
		}
	}
	fmt.Printf("autoyield: %d yield points inserted in %d packages\n", total, len(pkgs))
}

func writeHelpers(dir, pkg string) error {
	var b bytes.Buffer
	fmt.Fprintf(&b, "//go:build verif\n\npackage %s\n\n", pkg)
	if pkg == "plenccore" {
		b.WriteString(`func verifAutoYield(site string) { VerifYield(site) }

func verifAutoAwait(try func() bool, unlock func()) {
	h := VerifHooks.Yield
	if h == nil {
		return
	}
	for !try() {
		h("mutex.wait")
	}
	unlock()
}

func verifAutoOnceFn(f func()) func() {
	return func() {
		VerifYield("auto.onceEnter")
		defer VerifYield("auto.onceLeave")
		f()
	}
}
`)
	} else {
		b.WriteString(`import "github.com/philpearl/plenc/plenccore"

func verifAutoYield(site string) { plenccore.VerifYield(site) }

func verifAutoAwait(try func() bool, unlock func()) {
	h := plenccore.VerifHooks.Yield
	if h == nil {
		return
	}
	for !try() {
		h("mutex.wait")
	}
	unlock()
}

func verifAutoOnceFn(f func()) func() {
	return func() {
		plenccore.VerifYield("auto.onceEnter")
		defer plenccore.VerifYield("auto.onceLeave")
		f()
	}
}
`)
	}
	return os.WriteFile(filepath.Join(dir, "zz_verif_auto.go"), b.Bytes(), 0o644)
}

func rewriteFile(path string) (pkg string, n int, err error) {
	fset := token.NewFileSet()
	f, err := parser.ParseFile(fset, path, nil, parser.ParseComments)
	if err != nil {
		return "", 0, err
	}
	// files that are excluded from verif builds keep their text
	for _, cg := range f.Comments {
		for _, c := range cg.List {
			if strings.HasPrefix(c.Text, "//go:build") && strings.Contains(c.Text, "!verif") {
				return f.Name.Name, 0, nil
			}
		}
	}
	r := &rewriter{pkgIdents: map[string]string{}, loops: f.Name.Name != "plenccore"}
	for _, im := range f.Imports {
		p, _ := strconv.Unquote(im.Path.Value)
		name := p[strings.LastIndex(p, "/")+1:]
		if im.Name != nil {
			name = im.Name.Name
		}
		r.pkgIdents[name] = p
	}
	for _, d := range f.Decls {
		fd, ok := d.(*ast.FuncDecl)
		if !ok || fd.Body == nil {
			continue
		}
		if strings.HasPrefix(fd.Name.Name, "verif") {
			continue
		}
		r.block(fd.Body)
	}
	if r.insertions == 0 {
		return f.Name.Name, 0, nil
	}
	var out bytes.Buffer
	if err := format.Node(&out, fset, f); err != nil {
		return "", 0, err
	}
	return f.Name.Name, r.insertions, os.WriteFile(path, out.Bytes(), 0o644)
}

// syncKind reports the kind of the first synchronisation call in the
// expressions that belong to the statement itself (not to nested blocks or
// function literals).
func (r *rewriter) syncKind(nodes ...ast.Node) string {
	kind := ""
	for _, n := range nodes {
		if n == nil || (fmt.Sprintf("%v", n) == "<nil>") {
			continue
		}
		ast.Inspect(n, func(x ast.Node) bool {
			if kind != "" {
				return false
			}
			switch c := x.(type) {
			case *ast.FuncLit, *ast.BlockStmt:
				return false
			case *ast.CallExpr:
				sel, ok := c.Fun.(*ast.SelectorExpr)
				if !ok {
					return true
				}
				if id, ok := sel.X.(*ast.Ident); ok {
					if p, isPkg := r.pkgIdents[id.Name]; isPkg && id.Obj == nil {
						if p == "sync/atomic" {
							kind = "atomic"
						}
						return true
					}
				}
				if k, ok := atomicMethods[sel.Sel.Name]; ok {
					kind = k
				}
			}
			return true
		})
	}
	return kind
}

func yieldStmt(kind string) ast.Stmt {
	return &ast.ExprStmt{X: &ast.CallExpr{Fun: ast.NewIdent("verifAutoYield"), Args: []ast.Expr{&ast.BasicLit{Kind: token.STRING, Value: strconv.Quote("auto." + kind)}}}}
}

func (r *rewriter) stmts(list []ast.Stmt) []ast.Stmt {
	var out []ast.Stmt
	for _, s := range list {
		kind := ""
		switch st := s.(type) {
		case *ast.ExprStmt:
			// x.Lock() / x.RLock(): wait for the lock by yielding
			if c, ok := st.X.(*ast.CallExpr); ok && len(c.Args) == 0 {
				if sel, ok := c.Fun.(*ast.SelectorExpr); ok && (sel.Sel.Name == "Lock" || sel.Sel.Name == "RLock") {
					if noLock {
						// no yield point at all: a hand-placed wait-for-the-lock may precede the
						// statement, and a switch between the two would let somebody else take the lock
						out = append(out, s)
						continue
					}
					try, unl := "TryLock", "Unlock"
					if sel.Sel.Name == "RLock" {
						try, unl = "TryRLock", "RUnlock"
					}
					out = append(out, &ast.ExprStmt{X: &ast.CallExpr{Fun: ast.NewIdent("verifAutoAwait"), Args: []ast.Expr{
						&ast.SelectorExpr{X: sel.X, Sel: ast.NewIdent(try)}, &ast.SelectorExpr{X: sel.X, Sel: ast.NewIdent(unl)}}}})
					r.insertions++
					out = append(out, s)
					// and a switch point right after the lock is taken: others get to run
					// (and to find the lock held) while this task is inside the critical section
					out = append(out, yieldStmt("lock"))
					continue
				}
			}
			kind = r.syncKind(st.X)
		case *ast.AssignStmt:
			var ns []ast.Node
			for _, e := range st.Rhs {
				ns = append(ns, e)
			}
			for _, e := range st.Lhs {
				ns = append(ns, e)
			}
			kind = r.syncKind(ns...)
		case *ast.DeclStmt:
			kind = r.syncKind(st.Decl)
		case *ast.ReturnStmt:
			var ns []ast.Node
			for _, e := range st.Results {
				ns = append(ns, e)
			}
			kind = r.syncKind(ns...)
		case *ast.IncDecStmt:
			kind = r.syncKind(st.X)
		case *ast.SendStmt:
			kind = r.syncKind(st.Chan, st.Value)
		case *ast.IfStmt:
			r.ifStmt(st)
			var ns []ast.Node
			if st.Init != nil {
				ns = append(ns, st.Init)
			}
			ns = append(ns, st.Cond)
			kind = r.syncKind(ns...)
		case *ast.ForStmt:
			r.block(st.Body)
			r.loopMark(st.Body)
			var ns []ast.Node
			if st.Init != nil {
				ns = append(ns, st.Init)
			}
			if st.Cond != nil {
				ns = append(ns, st.Cond)
			}
			if st.Post != nil {
				ns = append(ns, st.Post)
			}
			kind = r.syncKind(ns...)
			if kind != "" {
				// a while-style loop on a synchronisation operation is (or may be) a wait
				// loop: its yield point tells the scheduler so, see engine (auto.spin)
				in := kind
				if st.Init == nil && st.Post == nil {
					in = "spin"
				}
				st.Body.List = append([]ast.Stmt{yieldStmt(in)}, st.Body.List...)
				r.insertions++
			}
		case *ast.RangeStmt:
			r.block(st.Body)
			r.loopMark(st.Body)
			kind = r.syncKind(st.X)
		case *ast.SwitchStmt:
			r.caseBodies(st.Body)
			var ns []ast.Node
			if st.Init != nil {
				ns = append(ns, st.Init)
			}
			if st.Tag != nil {
				ns = append(ns, st.Tag)
			}
			kind = r.syncKind(ns...)
		case *ast.TypeSwitchStmt:
			r.caseBodies(st.Body)
		case *ast.SelectStmt:
			r.caseBodies(st.Body)
		case *ast.BlockStmt:
			r.block(st)
		case *ast.LabeledStmt:
			inner := r.stmts([]ast.Stmt{st.Stmt})
			if len(inner) > 1 {
				// keep the label on the original statement; yields go before the label
				out = append(out, inner[:len(inner)-1]...)
			}
			st.Stmt = inner[len(inner)-1]
		case *ast.DeferStmt, *ast.GoStmt:
			// the call runs later; function literals inside are handled below
		}
		r.funcLits(s)
		if !noLock && r.onceCalls(s) {
			kind = "onceWait"
		}
		if kind != "" {
			out = append(out, yieldStmt(kind))
			r.insertions++
		}
		out = append(out, s)
	}
	return out
}

// loopMark puts verifAutoYield("auto.loop") at the top of a loop body: the
// simulator counts iterations there (it never switches tasks there), so that
// a loop that never ends - with or without a hand-placed hook - ends the run.
func (r *rewriter) loopMark(b *ast.BlockStmt) {
	if !r.loops || b == nil {
		return
	}
	b.List = append([]ast.Stmt{yieldStmt("loop")}, b.List...)
	r.insertions++
}

func (r *rewriter) block(b *ast.BlockStmt) {
	if b != nil {
		b.List = r.stmts(b.List)
	}
}

func (r *rewriter) ifStmt(st *ast.IfStmt) {
	r.block(st.Body)
	switch e := st.Else.(type) {
	case *ast.BlockStmt:
		r.block(e)
	case *ast.IfStmt:
		r.ifStmt(e)
		// a synchronisation call in an else-if condition: yield at the top of the enclosing if's body is not
		// equivalent, so wrap: else { <yield>; if ... }
		var ns []ast.Node
		if e.Init != nil {
			ns = append(ns, e.Init)
		}
		ns = append(ns, e.Cond)
		if k := r.syncKind(ns...); k != "" {
			st.Else = &ast.BlockStmt{List: []ast.Stmt{yieldStmt(k), e}}
			r.insertions++
		}
	}
}

func (r *rewriter) caseBodies(b *ast.BlockStmt) {
	for _, c := range b.List {
		switch cc := c.(type) {
		case *ast.CaseClause:
			cc.Body = r.stmts(cc.Body)
		case *ast.CommClause:
			cc.Body = r.stmts(cc.Body)
		}
	}
}

// onceCalls wraps the argument of every x.Do(f) in the statement's own
// expressions: x.Do(verifAutoOnceFn(f)), which tells the simulator when a task
// is inside a once function (sync.Once.Do blocks everybody else meanwhile; the
// yield point "auto.onceWait" before the statement waits for that by yielding).
func (r *rewriter) onceCalls(s ast.Stmt) bool {
	found := false
	switch s.(type) {
	case *ast.ExprStmt, *ast.AssignStmt, *ast.ReturnStmt, *ast.DeferStmt:
	default:
		return false
	}
	if _, isDefer := s.(*ast.DeferStmt); isDefer {
		return false
	}
	ast.Inspect(s, func(x ast.Node) bool {
		switch c := x.(type) {
		case *ast.FuncLit, *ast.BlockStmt:
			return false
		case *ast.CallExpr:
			if sel, ok := c.Fun.(*ast.SelectorExpr); ok && sel.Sel.Name == "Do" && len(c.Args) == 1 {
				if id, isIdent := sel.X.(*ast.Ident); isIdent {
					if _, isPkg := r.pkgIdents[id.Name]; isPkg && id.Obj == nil {
						return true
					}
				}
				c.Args[0] = &ast.CallExpr{Fun: ast.NewIdent("verifAutoOnceFn"), Args: []ast.Expr{c.Args[0]}}
				found = true
				return false
			}
		}
		return true
	})
	return found
}

// funcLits rewrites the bodies of function literals that occur in the
// statement's own expressions.
func (r *rewriter) funcLits(s ast.Stmt) {
	ast.Inspect(s, func(x ast.Node) bool {
		switch n := x.(type) {
		case *ast.BlockStmt:
			if n != nil && x != ast.Node(s) {
				return false // nested blocks are visited by stmts
			}
		case *ast.FuncLit:
			r.block(n.Body)
			return false
		}
		return true
	})
}
