// Command sim is the deterministic simulator for plenc.
//
//	sim run <property> <quick|thorough>     parent: spawn workers, aggregate, write evidence
//	sim worker ...                          one worker process (internal)
//	sim replay <file>                       re-execute a replay file
//	sim selftest <property>                 determinism self-test
package main

import (
	"bufio"
	"encoding/json"
	"fmt"
	"os"
	"strconv"
	"strings"
	"time"

	"verifsim/engine"
	"verifsim/props"
)

func usage() {
	fmt.Fprintln(os.Stderr, "usage: sim run <prop> <quick|thorough> | sim replay <file> | sim selftest <prop> | sim worker ...")
	os.Exit(2)
}

func envInt(name string, def int64) int64 {
	if s := os.Getenv(name); s != "" {
		if v, err := strconv.ParseInt(s, 10, 64); err == nil {
			return v
		}
	}
	return def
}

func main() {
	if len(os.Args) < 2 {
		usage()
	}
	defer func() {
		if r := recover(); r != nil {
			if he, ok := r.(props.HarnessError); ok {
				fmt.Fprintln(os.Stderr, "HARNESS ERROR:", he.Msg)
				os.Exit(2)
			}
			panic(r)
		}
	}()
	switch os.Args[1] {
	case "run":
		if len(os.Args) != 4 {
			usage()
		}
		os.Exit(runParent(os.Args[2], os.Args[3]))
	case "worker":
		os.Exit(runWorker(os.Args[2:]))
	case "replay":
		if len(os.Args) != 3 {
			usage()
		}
		os.Exit(runReplay(os.Args[2]))
	case "selftest":
		if len(os.Args) != 3 {
			usage()
		}
		os.Exit(runSelftest(os.Args[2]))
	default:
		usage()
	}
}

// ---------------------------------------------------------------------------
// worker

type workerArgs struct {
	prop   string
	tier   string
	seed   uint64
	part   string // "sweep" | "random" | "race" | "store"
	from   int
	to     int
	stride int
	only   int
	dump   bool
	race   bool
	outDir string
}

func parseWorkerArgs(args []string) workerArgs {
	w := workerArgs{stride: 1, only: -1}
	for _, a := range args {
		kv := strings.SplitN(a, "=", 2)
		if len(kv) != 2 {
			panic(props.HarnessError{Msg: "bad worker arg " + a})
		}
		v := kv[1]
		n, _ := strconv.ParseInt(v, 10, 64)
		switch kv[0] {
		case "prop":
			w.prop = v
		case "tier":
			w.tier = v
		case "seed":
			u, _ := strconv.ParseUint(v, 10, 64)
			w.seed = u
		case "part":
			w.part = v
		case "from":
			w.from = int(n)
		case "to":
			w.to = int(n)
		case "stride":
			w.stride = int(n)
		case "only":
			w.only = int(n)
		case "dump":
			w.dump = v == "1"
		case "race":
			w.race = v == "1"
		case "out":
			w.outDir = v
		case "casefile":
			caseFileArg = v
		}
	}
	return w
}

// Line is one line of worker output.
type Line struct {
	Ev       string           `json:"ev"`
	Idx      int              `json:"i"`
	Part     string           `json:"part,omitempty"`
	Viol     *props.Violation `json:"viol,omitempty"`
	Replay   string           `json:"replay,omitempty"`
	Sum      *Summary         `json:"sum,omitempty"`
	Scenario *props.Scenario  `json:"scenario,omitempty"`
	Decs     string           `json:"decs,omitempty"`
	Msg      string           `json:"msg,omitempty"`
}

// Summary aggregates what a worker did.
type Summary struct {
	Runs          int               `json:"runs"`
	Ops           int               `json:"ops"`
	OpsByKind     map[string]int    `json:"ops_by_kind"`
	Excluded      int               `json:"ops_excluded_solo"`
	Steps         int64             `json:"steps"`
	Switches      int64             `json:"switches"`
	Decisions     int64             `json:"decisions"`
	Nontrivial    int               `json:"nontrivial"`
	Hashes        []uint64          `json:"hashes"` // interleaving ids of non-trivial runs
	FreeRun       int               `json:"free_run"`
	Faults        map[string]int64  `json:"faults"`
	Probes        map[string]int64  `json:"probes"`
	Pairs         map[string]uint32 `json:"pairs"` // site pair coverage: "from>to" -> count
	Policies      map[string]int    `json:"policies"`
	Families      map[string]int    `json:"families"`
	Samples       []json.RawMessage `json:"samples"`
	TraceHash     uint64            `json:"trace_hash"` // xor-fold of per-run (index, interleaving id): determinism self-test
	Violations    int               `json:"violations"`
	Store         *props.StoreStats `json:"store,omitempty"`
	WallS         float64           `json:"wall_s"`
	StoppedEarly  bool              `json:"stopped_early,omitempty"`
	SweepJobs     int               `json:"sweep_jobs,omitempty"`
	SweepRuns     int               `json:"sweep_runs,omitempty"`
	MaxInFlight   int               `json:"max_in_flight"`
	RaceLogBytes  int64             `json:"race_log_bytes,omitempty"`
	DistinctCases int               `json:"distinct_cases,omitempty"`
}

func newSummary() *Summary {
	return &Summary{OpsByKind: map[string]int{}, Faults: map[string]int64{}, Probes: map[string]int64{}, Pairs: map[string]uint32{}, Policies: map[string]int{}, Families: map[string]int{}}
}

// a worker stops after this many violations: a broken tree fails fast
const maxReportsPerWorker = 2

var stdout = bufio.NewWriterSize(os.Stdout, 1<<16)

func emit(l *Line) {
	b, err := json.Marshal(l)
	if err != nil {
		panic(err)
	}
	stdout.Write(b)
	stdout.WriteByte('\n')
	stdout.Flush()
}

func (s *Summary) addOutcome(idx int, sc *props.Scenario, out *props.Outcome, excluded int) {
	s.Runs++
	s.Ops += out.OpsRun
	for k, v := range out.OpsByKind {
		s.OpsByKind[k] += v
	}
	s.Excluded += excluded
	s.Steps += int64(out.Stats.Steps)
	s.Switches += int64(out.Stats.Switches)
	s.Decisions += int64(out.Stats.Decisions)
	historyRun := sc.Prop == "C10" && (out.Probes["target_reused"] > 0 || out.Stats.PoolRecycled > 0)
	if out.Stats.MaxInFlight >= 2 && out.Stats.Switches >= 1 || historyRun {
		s.Nontrivial++
		s.Hashes = append(s.Hashes, out.Stats.Hash)
	}
	if out.Stats.MaxInFlight > s.MaxInFlight {
		s.MaxInFlight = out.Stats.MaxInFlight
	}
	if out.Stats.FreeRun {
		s.FreeRun++
		// something in this build blocks for real: say so to the parent's silence watchdog
		// (each such run costs the fall-back delay) and stop waiting long for the next ones
		os.Stderr.WriteString(".")
		engine.ShortenFreeRun()
	}
	s.Faults["preemption"] += int64(out.Stats.Switches)
	s.Faults["pool_fresh"] += int64(out.Stats.PoolFresh)
	s.Faults["pool_recycled"] += int64(out.Stats.PoolRecycled)
	s.Faults["pool_drop"] += int64(out.Stats.PoolDrop)
	s.Faults["pool_keep"] += int64(out.Stats.PoolKeep)
	s.Faults["stall"] += int64(out.Stats.Stalls)
	s.Faults["mutex_wait"] += int64(out.Stats.MutexWaits)
	for k, v := range out.Probes {
		if strings.HasPrefix(k, "fault:") {
			s.Faults[strings.TrimPrefix(k, "fault:")] += int64(v)
		} else {
			s.Probes[k] += int64(v)
		}
	}
	for i, c := range out.Pairs {
		if c != 0 {
			from, to := i/engine.NumSites, i%engine.NumSites
			s.Pairs[engine.SiteNames[from]+">"+engine.SiteNames[to]] += c
		}
	}
	s.Policies[sc.Policy.Kind]++
	s.TraceHash ^= engine.Mix(uint64(idx)+1, out.Stats.Hash, uint64(len(out.Violations)))
	if len(s.Samples) < 3 && out.Stats.Switches >= 1 {
		smp := map[string]interface{}{"index": idx, "scenario": sc, "decisions": engine.FormatDecs(out.Decisions), "trace_head": head(props.TraceStrings(out.Trace), 40), "steps": out.Stats.Steps, "switches": out.Stats.Switches}
		b, _ := json.Marshal(smp)
		s.Samples = append(s.Samples, b)
	}
}

func head(s []string, n int) []string {
	if len(s) > n {
		return s[:n]
	}
	return s
}

func runWorker(args []string) int {
	w := parseWorkerArgs(args)
	def := propDefs[w.prop]
	if def == nil {
		panic(props.HarnessError{Msg: "unknown property " + w.prop})
	}
	start := time.Now()
	sum := newSummary()
	maxS := envInt("VERIF_MAX_S", 0)
	deadline := time.Time{}
	if maxS > 0 {
		deadline = start.Add(time.Duration(maxS) * time.Second)
	}
	if def.Store != nil {
		return def.Store(w, sum, start, deadline)
	}
	rl := newRaceLog(w.race)
	racePost := func(out *props.Outcome) {
		if rep := rl.check(); rep != "" {
			if v := raceViolation(w.prop, rep); v != nil {
				out.Violations = append(out.Violations, v)
			}
		}
	}
	handle := func(idx int, sc *props.Scenario, prep *props.Prepared, out *props.Outcome) {
		sum.addOutcome(idx, sc, out, prep.Excluded)
		racePost(out)
		if len(out.Violations) == 0 {
			return
		}
		sum.Violations++
		if sum.Violations <= maxReportsPerWorker {
			reportViolation(w, def, idx, sc, out, racePost)
		}
	}
	if w.dump {
		// first the scenario as generated (if preparing it - the solo oracle runs the code
		// under test - kills this process too, the parent still has that), then as prepared
		emit(&Line{Ev: "scenario", Idx: w.only, Scenario: def.Gen(w.seed, w.only)})
		sc := scenarioFor(def, w, w.only)
		emit(&Line{Ev: "scenario", Idx: w.only, Scenario: sc})
		return 0
	}
	echo := map[int]uint64{}
	switch w.part {
	case "sweep":
		jobs := def.SweepJobs(w.seed, w.tier == "quick")
		for j := w.from; j < len(jobs) && (w.to <= 0 || j < w.to); j += w.stride {
			if w.only >= 0 && j != w.only {
				continue
			}
			if !deadline.IsZero() && time.Now().After(deadline) || sum.Violations >= maxReportsPerWorker {
				sum.StoppedEarly = true
				break
			}
			fmt.Fprintf(os.Stderr, "RUN sweep %d\n", j)
			sum.SweepJobs++
			// count the yields of A by a first placement far beyond its end
			n := 1
			for i := 0; i <= n; i++ {
				sc := def.SweepScenario(w.seed, jobs[j], j, i)
				prep := props.Prepare(sc, true)
				if len(sc.Tasks) < 2 || len(sc.Tasks[0]) == 0 || len(sc.Tasks[1]) == 0 {
					break
				}
				out := props.Execute(prep, def.hooks(), nil, false)
				if i == 0 {
					// yields of task 0 in this run bound the sweep
					n = countTask(out.Trace, 0)
					if n > 400 {
						n = 400
					}
				}
				sum.SweepRuns++
				handle(-1-j, sc, prep, out)
			}
			if w.tier == "thorough" && def.SweepScenario != nil {
				// two preemption points: A to its i-th yield, B to its j-th, A to the end, B to the end
				stepI := 1 + n/24
				for i := 1; i <= n; i += stepI {
					nb := 1
					for jj := 1; jj <= nb; jj++ {
						sc := props.SweepScenario2(w.seed, jobs[j], j, i, jj)
						prep := props.Prepare(sc, true)
						if len(sc.Tasks) < 2 || len(sc.Tasks[0]) == 0 || len(sc.Tasks[1]) == 0 {
							break
						}
						out := props.Execute(prep, def.hooks(), nil, false)
						if jj == 1 {
							nb = countTask(out.Trace, 1)
							if nb > 32 {
								nb = 32
							}
						}
						sum.SweepRuns++
						handle(-1-j, sc, prep, out)
						if sum.Violations >= maxReportsPerWorker {
							break
						}
					}
				}
			}
		}
	default:
		for idx := w.from; w.to <= 0 || idx < w.to; idx += w.stride {
			if w.only >= 0 {
				idx = w.only
			}
			if !deadline.IsZero() && time.Now().After(deadline) || sum.Violations >= maxReportsPerWorker {
				sum.StoppedEarly = true
				break
			}
			fmt.Fprintf(os.Stderr, "RUN %s %d\n", w.part, idx)
			sc := def.Gen(w.seed, idx)
			prep := props.Prepare(sc, true)
			out := props.Execute(prep, def.hooks(), nil, false)
			sum.Families[sc.Note]++
			handle(idx, sc, prep, out)
			if def.Echo && w.only < 0 && !w.race {
				// echo run: every 16th scenario is executed again after this worker has
				// run 40 other scenarios. What it returns must not depend on what the
				// process did in between (state outside the instance).
				const lag = 40
				if (idx/w.stride)%16 == 0 {
					echo[idx] = out.ResultHash
				}
				old := idx - lag*w.stride
				if h, ok := echo[old]; ok {
					delete(echo, old)
					sc2 := def.Gen(w.seed, old)
					prep2 := props.Prepare(sc2, true)
					out2 := props.Execute(prep2, def.hooks(), nil, false)
					sum.Probes["echo_runs"]++
					if out2.ResultHash != h && len(out2.Violations) == 0 {
						v := &props.Violation{Prop: w.prop, Kind: "history", Task: -1, OpIdx: -1, OpKind: "run",
							Msg: fmt.Sprintf("scenario %d returned different results when executed again after %d other scenarios in the same process: results depend on state outside the instance", old, lag)}
						out2.Violations = append(out2.Violations, v)
						sum.Violations++
						rf := &props.ReplayFile{Property: w.prop, Engine: "echo", Violation: v, Scenario: sc2, Echo: &props.EchoCase{Seed: w.seed, From: old, To: idx, Stride: w.stride}}
						path := fmt.Sprintf("%s/%s-%d-echo-%d.json", w.outDir, w.prop, w.seed, old)
						if err := rf.Write(path); err == nil && sum.Violations <= maxReportsPerWorker {
							emit(&Line{Ev: "viol", Idx: old, Part: w.part, Viol: v, Replay: path})
						}
					}
				}
			}
			if w.only >= 0 {
				break
			}
		}
	}
	sum.WallS = time.Since(start).Seconds()
	sum.RaceLogBytes = rl.size()
	emit(&Line{Ev: "summary", Part: w.part, Sum: sum})
	return 0
}

func countTask(tr []uint16, task int) int {
	n := 0
	for _, e := range tr {
		if int(e>>8) == task {
			n++
		}
	}
	return n
}

func scenarioFor(def *PropDef, w workerArgs, idx int) *props.Scenario {
	sc := def.Gen(w.seed, idx)
	props.Prepare(sc, true)
	return sc
}

// reportViolation minimises (unless it is a race-build report) and emits the
// violation with its replay data.
func reportViolation(w workerArgs, def *PropDef, idx int, sc *props.Scenario, out *props.Outcome, post func(*props.Outcome)) {
	v := out.Violations[0]
	rf := &props.ReplayFile{Property: w.prop, Engine: "sched", Violation: v, Scenario: sc, Decisions: engine.FormatDecs(out.Decisions), Race: w.race, Trace: head(props.TraceStrings(out.Trace), 400)}
	if !out.Stats.FreeRun {
		msc, mdecs, mv, mout, log := props.Shrink(sc, def.hooks2(), out.Decisions, v, 600, 30*time.Second, post)
		if mout != nil {
			rf.Original = &struct {
				Scenario  *props.Scenario `json:"scenario"`
				Decisions string          `json:"decisions"`
			}{sc, engine.FormatDecs(out.Decisions)}
			rf.Scenario, rf.Decisions, rf.Violation, rf.Minimised, rf.Shrink = msc, engine.FormatDecs(mdecs), mv, true, log
			rf.Trace = head(props.TraceStrings(mout.Trace), 400)
		} else {
			rf.Shrink = log
			// forced replay does not reproduce: fall back to the policy + seed form
			rf.UsePolicy = true
			rf.Decisions = ""
		}
	}
	name := fmt.Sprintf("%s-%d-%s-%d.json", w.prop, w.seed, w.part, idx)
	if idx < 0 {
		name = fmt.Sprintf("%s-%d-%s-job%d-%d.json", w.prop, w.seed, w.part, -1-idx, sc.Policy.SweepI)
	}
	path := w.outDir + "/" + name
	if err := rf.Write(path); err != nil {
		panic(props.HarnessError{Msg: "cannot write replay file: " + err.Error()})
	}
	emit(&Line{Ev: "viol", Idx: idx, Part: w.part, Viol: rf.Violation, Replay: path})
}
