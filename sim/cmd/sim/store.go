package main

import (
	"encoding/json"
	"fmt"
	"os"
	"syscall"
	"time"

	"verifsim/props"
)

var caseFileArg string

// storeWorker runs the store-fault simulator over a slice of record indexes.
func storeWorker(w workerArgs, sum *Summary, start time.Time, deadline time.Time) int {
	// contain input-controlled allocations: a multi-gigabyte request must kill
	// this worker, not the machine
	lim := uint64(envInt("VERIF_STORE_AS_LIMIT", 12<<30))
	syscall.Setrlimit(syscall.RLIMIT_AS, &syscall.Rlimit{Cur: lim, Max: lim})
	s := props.NewStoreSim()
	s.CaseFile = caseFileArg
	thorough := w.tier == "thorough"
	sum.Store = s.St
	findings := loadFindings()
	knownReported := map[string]bool{}
	report := func(idx int, v *props.Violation, c *props.StoreCase) {
		if f := matchFinding(findings, v); f != nil {
			// a listed finding: report it once per worker and carry on
			if knownReported[f.What] {
				return
			}
			knownReported[f.What] = true
		} else {
			sum.Violations++
			if sum.Violations > maxReportsPerWorker {
				return
			}
		}
		rf := &props.ReplayFile{Property: "C04", Engine: "store", Violation: v, Store: c}
		mc, mv, log := c, (*props.Violation)(nil), ""
		if c.Warmup == 0 && c.History == nil && c.Scale == nil && c.Deep == nil {
			mc, mv, log = props.MinimiseStore(c, v)
		}
		if mv != nil {
			orig := *c
			_ = orig
			rf.Store, rf.Violation, rf.Minimised, rf.Shrink = mc, mv, true, log
		}
		path := fmt.Sprintf("%s/C04-%d-%s-%d-%s-%s.json", w.outDir, w.seed, w.part, idx, v.Kind, c.Reader)
		if err := rf.Write(path); err != nil {
			panic(props.HarnessError{Msg: err.Error()})
		}
		emit(&Line{Ev: "viol", Idx: idx, Part: w.part, Viol: rf.Violation, Replay: path})
	}
	for idx := w.from; w.to <= 0 || idx < w.to; idx += w.stride {
		if w.only >= 0 {
			idx = w.only
		}
		if !deadline.IsZero() && time.Now().After(deadline) || sum.Violations >= maxReportsPerWorker {
			sum.StoppedEarly = true
			break
		}
		fmt.Fprintf(os.Stderr, "RUN %s %d\n", w.part, idx)
		var v *props.Violation
		var c *props.StoreCase
		if w.part == "short" {
			v, c = s.ShortBlocks(idx, thorough)
		} else if w.part == "history" {
			v, c = s.HistoryProbe(idx)
		} else if w.part == "deep" {
			v, c = s.DeepProbe(idx, thorough)
		} else if w.part == "scale" {
			v, c = s.ScaleProbe(w.seed, idx, thorough)
		} else {
			v, c = s.StoreRecord(w.seed, idx, thorough)
		}
		sum.Runs++
		if v != nil {
			report(idx, v, c)
		}
		for _, sv := range s.Soft {
			report(idx, sv.V, sv.C)
		}
		s.Soft = nil
		if len(sum.Samples) < 2 && c == nil && s.LastCase() != nil {
			b, _ := json.Marshal(map[string]interface{}{"record_index": idx, "last_case_of_the_record": s.LastCase()})
			sum.Samples = append(sum.Samples, b)
		}
		if w.only >= 0 {
			break
		}
	}
	sum.WallS = time.Since(start).Seconds()
	emit(&Line{Ev: "summary", Part: w.part, Sum: sum})
	return 0
}
