package main

import (
	"bufio"
	"bytes"
	"encoding/json"
	"fmt"
	"os"
	"os/exec"
	"path/filepath"
	"sort"
	"strconv"
	"strings"
	"sync"
	"sync/atomic"
	"syscall"
	"time"

	"verifsim/props"
)

// part is one batch of runs handled by a pool of worker processes.
type part struct {
	Name    string // sweep | random | race | store...
	Count   int    // number of indexes (or jobs)
	Base    int    // first index
	Race    bool
	Workers int
}

var unconfirmedDeaths atomic.Int64

type partResult struct {
	sums   []*Summary
	viols  []*Line
	err    error
	gaveUp int // workers that stopped after repeated confirmed crashes / hangs
}

// verifDir is where MANIFEST.json, known_findings.json, evidence/ and replays/
// live. run.sh sets VERIF_DIR to its own directory (always /verif for the
// registered commands; a snapshot directory for background runs).
var verifDir = func() string {
	if d := os.Getenv("VERIF_DIR"); d != "" {
		return d
	}
	return "/verif"
}()

func nWorkers() int {
	n := int(envInt("VERIF_WORKERS", 16))
	if n < 1 {
		n = 1
	}
	return n
}

type ring struct {
	mu  sync.Mutex
	buf []byte
	t   time.Time
}

func (r *ring) Write(p []byte) (int, error) {
	r.mu.Lock()
	r.buf = append(r.buf, p...)
	if len(r.buf) > 1<<17 {
		r.buf = append([]byte(nil), r.buf[len(r.buf)-(1<<16):]...)
	}
	r.t = time.Now()
	r.mu.Unlock()
	return len(p), nil
}

func (r *ring) snapshot() (string, time.Time) {
	r.mu.Lock()
	defer r.mu.Unlock()
	return string(r.buf), r.t
}

// lastRun finds the last "RUN <part> <idx>" marker in a worker's stderr.
func lastRun(stderr string) (int, bool) {
	i := strings.LastIndex(stderr, "RUN ")
	if i < 0 {
		return 0, false
	}
	f := strings.Fields(stderr[i:])
	if len(f) < 3 {
		return 0, false
	}
	n, err := strconv.Atoi(f[2])
	return n, err == nil
}

type workerOutcome struct {
	lines    []*Line
	summary  *Summary
	exitErr  error
	stderr   string
	timedOut bool
}

func binFor(race bool) string {
	if race {
		b := os.Getenv("VERIF_RACE_BIN")
		if b == "" {
			panic(props.HarnessError{Msg: "VERIF_RACE_BIN not set"})
		}
		return b
	}
	exe, err := os.Executable()
	if err != nil {
		panic(err)
	}
	return exe
}

var workDir string

// spawn runs one worker process to completion with a silence watchdog.
func spawn(race bool, args []string, silence time.Duration, total time.Duration) *workerOutcome {
	cmd := exec.Command(binFor(race), append([]string{"worker"}, args...)...)
	cmd.Env = append(os.Environ(), "GOMAXPROCS="+strconv.Itoa(int(envInt("VERIF_WORKER_PROCS", 2))))
	if race {
		cmd.Env = append(cmd.Env, "GORACE=log_path="+filepath.Join(workDir, "race")+" halt_on_error=0 exitcode=0 history_size=3 suppress_equal_stacks=0 suppress_equal_addresses=0")
	}
	cmd.SysProcAttr = &syscall.SysProcAttr{Setpgid: true}
	var errBuf ring
	errBuf.t = time.Now()
	cmd.Stderr = &errBuf
	so, err := cmd.StdoutPipe()
	if err != nil {
		panic(err)
	}
	wo := &workerOutcome{}
	if err := cmd.Start(); err != nil {
		wo.exitErr = err
		return wo
	}
	var lastOut time.Time = time.Now()
	var mu sync.Mutex
	done := make(chan struct{})
	go func() {
		sc := bufio.NewScanner(so)
		sc.Buffer(make([]byte, 1<<20), 1<<28)
		for sc.Scan() {
			var l Line
			if err := json.Unmarshal(sc.Bytes(), &l); err != nil {
				continue
			}
			mu.Lock()
			lastOut = time.Now()
			if l.Ev == "summary" {
				wo.summary = l.Sum
			} else {
				wo.lines = append(wo.lines, &l)
			}
			mu.Unlock()
		}
		close(done)
	}()
	start := time.Now()
	tick := time.NewTicker(500 * time.Millisecond)
	defer tick.Stop()
wait:
	for {
		select {
		case <-done:
			break wait
		case <-tick.C:
			_, te := errBuf.snapshot()
			mu.Lock()
			lo := lastOut
			mu.Unlock()
			if te.After(lo) {
				lo = te
			}
			if time.Since(lo) > silence || (total > 0 && time.Since(start) > total) {
				wo.timedOut = true
				syscall.Kill(-cmd.Process.Pid, syscall.SIGKILL)
				<-done
				break wait
			}
		}
	}
	wo.exitErr = cmd.Wait()
	wo.stderr, _ = errBuf.snapshot()
	return wo
}

func workerArgsFor(prop, tier string, seed uint64, p *part, w int, from int) []string {
	return []string{
		"prop=" + prop, "tier=" + tier, "seed=" + strconv.FormatUint(seed, 10), "part=" + p.Name,
		"from=" + strconv.Itoa(from), "to=" + strconv.Itoa(p.Base+p.Count), "stride=" + strconv.Itoa(p.Workers),
		"race=" + b2s(p.Race), "out=" + filepath.Join(verifDir, "replays"),
	}
}

func b2s(b bool) string {
	if b {
		return "1"
	}
	return "0"
}

// runPart runs all workers of a part; crashed or hung workers are confirmed in
// isolation and restarted past the offending index.
func runPart(prop, tier string, seed uint64, p *part) *partResult {
	res := &partResult{}
	var mu sync.Mutex
	var wg sync.WaitGroup
	for w := 0; w < p.Workers; w++ {
		wg.Add(1)
		go func(w int) {
			defer wg.Done()
			from := p.Base + w
			confirmed := 0
			for restarts := 0; ; restarts++ {
				wo := spawn(p.Race, workerArgsFor(prop, tier, seed, p, w, from), 90*time.Second, 0)
				mu.Lock()
				for _, l := range wo.lines {
					if l.Ev == "viol" {
						res.viols = append(res.viols, l)
					}
				}
				if wo.summary != nil {
					res.sums = append(res.sums, wo.summary)
				}
				mu.Unlock()
				if wo.summary != nil && wo.exitErr == nil {
					return
				}
				// the worker died or hung
				idx, ok := lastRun(wo.stderr)
				if ok && restarts > 3 && confirmed > 0 {
					// this worker keeps dying and every death so far was confirmed as a
					// violation of its own: enough, the rest of its share is not run
					mu.Lock()
					res.gaveUp++
					mu.Unlock()
					return
				}
				if !ok || restarts > 3 {
					mu.Lock()
					res.err = fmt.Errorf("worker %d of part %s failed without a usable run marker (exit=%v timedOut=%v): %s", w, p.Name, wo.exitErr, wo.timedOut, tail(wo.stderr, 2000))
					mu.Unlock()
					return
				}
				v, herr := confirmCrash(prop, tier, seed, p, idx, wo, from)
				mu.Lock()
				if herr != nil {
					res.err = herr
				} else if v != nil {
					res.viols = append(res.viols, v)
					confirmed++
				}
				mu.Unlock()
				if herr != nil {
					return
				}
				from = idx + p.Workers
				if from >= p.Base+p.Count {
					return
				}
			}
		}(w)
	}
	wg.Wait()
	return res
}

func tail(s string, n int) string {
	if len(s) > n {
		return s[len(s)-n:]
	}
	return s
}

func crashKind(wo *workerOutcome) (kind, msg string) {
	if wo.timedOut {
		return "hang", "the worker made no progress for the watchdog period and was killed"
	}
	st := wo.stderr
	for _, key := range []string{"fatal error:", "unexpected signal", "panic:", "runtime: out of memory", "SIGSEGV"} {
		if i := strings.Index(st, key); i >= 0 {
			line := st[i:]
			if j := strings.IndexByte(line, '\n'); j > 0 {
				line = line[:j]
			}
			return "fatal", line
		}
	}
	return "fatal", fmt.Sprintf("worker exited abnormally (%v)", wo.exitErr)
}

// confirmCrash re-executes one run index alone in a fresh process. Only a
// confirmed crash or hang becomes a violation.
func confirmCrash(prop, tier string, seed uint64, p *part, idx int, first *workerOutcome, hfrom int) (*Line, error) {
	args := []string{"prop=" + prop, "tier=" + tier, "seed=" + strconv.FormatUint(seed, 10), "part=" + p.Name, "only=" + strconv.Itoa(idx), "from=" + strconv.Itoa(idx), "race=" + b2s(p.Race), "out=" + filepath.Join(verifDir, "replays")}
	caseFile := filepath.Join(workDir, fmt.Sprintf("case-%s-%d.json", p.Name, idx))
	if propDefs[prop].Store != nil {
		args = append(args, "casefile="+caseFile)
	}
	wo := spawn(p.Race, args, 120*time.Second, 600*time.Second)
	if wo.summary != nil && wo.exitErr == nil {
		// ran fine alone. If it reported a violation, keep that.
		for _, l := range wo.lines {
			if l.Ev == "viol" {
				return l, nil
			}
		}
		if strings.Contains(first.stderr, "out of memory") || strings.Contains(first.stderr, "cannot allocate memory") {
			// the worker ran out of its address-space allowance after many large cases and the case
			// at hand is fine on its own: the environment, not the code under test. Carry on.
			fmt.Fprintf(os.Stderr, "note: a worker of part %s ran out of memory at index %d; the index runs clean alone, the worker is restarted after it\n", p.Name, idx)
			return nil, nil
		}
		// Not alone - but perhaps after the same runs this worker had executed before it, in the same
		// order, in one process: state outside the instance (package-level variables of the code
		// under test) that earlier runs left behind. That history is replayable.
		if propDefs[prop].Store == nil && p.Name != "sweep" && hfrom < idx && (idx-hfrom)/p.Workers <= 4000 {
			hargs := []string{"prop=" + prop, "tier=" + tier, "seed=" + strconv.FormatUint(seed, 10), "part=" + p.Name,
				"from=" + strconv.Itoa(hfrom), "to=" + strconv.Itoa(idx+1), "stride=" + strconv.Itoa(p.Workers), "race=" + b2s(p.Race), "out=" + filepath.Join(verifDir, "replays")}
			hw := spawn(p.Race, hargs, 120*time.Second, 900*time.Second)
			if !(hw.summary != nil && hw.exitErr == nil) {
				if last, ok := lastRun(hw.stderr); ok && last == idx {
					kind, msg := crashKind(hw)
					v := &props.Violation{Prop: prop, Kind: kind, Task: -1, OpIdx: -1, OpKind: "run",
						Msg: fmt.Sprintf("%s | %s | run %d of part %s ends like this only after runs %d, %d, ... of the same part were executed before it in the same process (it is fine in a fresh process): state outside the Plenc instance survives from one use to the next", msg, firstPlencFrame(hw.stderr), idx, p.Name, hfrom, hfrom+p.Workers)}
					rf := &props.ReplayFile{Property: prop, Engine: "echo", Violation: v, Echo: &props.EchoCase{Seed: seed, From: hfrom, To: idx, Stride: p.Workers, Part: p.Name, Tier: tier, Race: p.Race}, Race: p.Race, Confirmed: true}
					path := filepath.Join(verifDir, "replays", fmt.Sprintf("%s-%d-%s-%d-history-crash.json", prop, seed, p.Name, idx))
					if err := rf.Write(path); err != nil {
						return nil, err
					}
					return &Line{Ev: "viol", Idx: idx, Part: p.Name, Viol: v, Replay: path}, nil
				}
			}
		}
		// Died or hung in the company of the runs before it, fine on its own. The usual reason: a
		// run was aborted part-way (step budget, deadlock) by a panic through the code under test,
		// which left something of that process behind (a lock held, a channel never closed). Only a
		// confirmed crash or hang is a violation; a few unconfirmed ones are noted and the worker
		// is restarted after the index, many are a harness error (runParent).
		unconfirmedDeaths.Add(1)
		fmt.Fprintf(os.Stderr, "note: a worker of part %s died or hung at index %d; the index runs clean alone, the worker is restarted after it\n", p.Name, idx)
		return nil, nil
	}
	kind, msg := crashKind(wo)
	// frames of plenc in the crash?
	if !strings.Contains(wo.stderr, "github.com/philpearl/plenc") && kind == "fatal" && !strings.Contains(wo.stderr, "out of memory") {
		// The index kills a fresh process too, but not inside plenc. If it is the Go runtime finding
		// the heap damaged (a pointer into freed memory, a bad pointer in a scanned object, a fault in
		// the collector) the damage was done earlier by code that writes through unsafe pointers -
		// the code under test; the harness does not crash like that on the unchanged tree.
		damaged := false
		for _, key := range []string{"found pointer to free object", "found bad pointer", "bad pointer in", "unexpected fault address", "fatal error: fault", "heapBitsSetType", "sweep increased allocation count", "marking free object", "unexpected signal during runtime execution"} {
			if strings.Contains(wo.stderr, key) {
				damaged = true
			}
		}
		if !damaged {
			return nil, fmt.Errorf("worker crash at %s index %d without plenc frames: %s", p.Name, idx, tail(wo.stderr, 3000))
		}
		msg += " (no plenc frame on the crashing stack: the runtime found memory damaged by an earlier operation of this run)"
	}
	// obtain the scenario for the replay file
	var sc *props.Scenario
	if propDefs[prop].Store == nil {
		dump := spawn(false, append(args, "dump=1"), 60*time.Second, 60*time.Second)
		for _, l := range dump.lines {
			if l.Ev == "scenario" {
				sc = l.Scenario
			}
		}
	}
	v := &props.Violation{Prop: prop, Kind: kind, Task: -1, OpIdx: -1, OpKind: "run", Msg: msg + " | " + firstPlencFrame(wo.stderr)}
	rf := &props.ReplayFile{Property: prop, Engine: "sched", Violation: v, Scenario: sc, UsePolicy: true, Race: p.Race, Confirmed: true}
	path := filepath.Join(verifDir, "replays", fmt.Sprintf("%s-%d-%s-%d-crash.json", prop, seed, p.Name, idx))
	if propDefs[prop].Store != nil {
		b, err := os.ReadFile(caseFile)
		var c props.StoreCase
		if err != nil || json.Unmarshal(b, &c) != nil {
			return nil, fmt.Errorf("worker crashed at %s index %d but left no case file: %s", p.Name, idx, tail(wo.stderr, 1500))
		}
		rf.Engine, rf.Store, rf.UsePolicy = "store", &c, false
		v.OpKind, v.Type = c.Mode, c.Reader
		v.Msg += " | input: " + c.Fault
		if strings.Contains(msg, "stack overflow") {
			v.Kind = "stack-overflow"
		}
	} else if sc == nil {
		return nil, fmt.Errorf("could not dump the scenario of the crashing index %d", idx)
	}
	if err := rf.Write(path); err != nil {
		return nil, err
	}
	return &Line{Ev: "viol", Idx: idx, Part: p.Name, Viol: v, Replay: path}, nil
}

func firstPlencFrame(st string) string {
	for _, line := range strings.Split(st, "\n") {
		if strings.HasPrefix(line, "github.com/philpearl/plenc") {
			return strings.TrimSpace(line)
		}
	}
	return ""
}

// ---------------------------------------------------------------------------
// known findings

type Finding struct {
	Property string `json:"property"`
	Status   string `json:"status"` // "finding" | "fixed"
	Kind     string `json:"kind,omitempty"`
	Match    string `json:"match,omitempty"` // substring of the violation message / site
	What     string `json:"what"`
	Commit   string `json:"commit,omitempty"`
}

func loadFindings() []Finding {
	b, err := os.ReadFile(filepath.Join(verifDir, "known_findings.json"))
	if err != nil {
		return nil
	}
	var f struct {
		Findings []Finding `json:"findings"`
	}
	if err := json.Unmarshal(b, &f); err != nil {
		panic(props.HarnessError{Msg: "known_findings.json does not parse: " + err.Error()})
	}
	return f.Findings
}

func matchFinding(fs []Finding, v *props.Violation) *Finding {
	for i := range fs {
		f := &fs[i]
		if f.Status != "finding" || f.Property != v.Prop {
			continue
		}
		if f.Kind != "" && f.Kind != v.Kind {
			continue
		}
		if f.Match != "" && !strings.Contains(v.Msg+" "+v.Site, f.Match) {
			continue
		}
		return f
	}
	return nil
}

// ---------------------------------------------------------------------------
// parent

func runParent(prop, tier string) int {
	def := propDefs[prop]
	if def == nil {
		fmt.Fprintln(os.Stderr, "unknown property", prop)
		return 2
	}
	if tier != "quick" && tier != "thorough" {
		usage()
	}
	seed := uint64(envInt("VERIF_SEED", 1))
	start := time.Now()
	var err error
	workDir, err = os.MkdirTemp(filepath.Join(verifDir, "work"), prop+"-")
	if err != nil {
		os.MkdirAll(filepath.Join(verifDir, "work"), 0o755)
		workDir, err = os.MkdirTemp(filepath.Join(verifDir, "work"), prop+"-")
		if err != nil {
			fmt.Fprintln(os.Stderr, "cannot create work dir:", err)
			return 2
		}
	}
	defer os.RemoveAll(workDir)
	os.MkdirAll(filepath.Join(verifDir, "replays"), 0o755)
	os.MkdirAll(filepath.Join(verifDir, "evidence"), 0o755)
	fmt.Printf("seed=%d property=%s tier=%s\n", seed, prop, tier)

	parts := def.Parts(tier, seed)
	total := newSummary()
	var allViols []*Line
	perPart := map[string]*Summary{}
	for i := range parts {
		p := &parts[i]
		if p.Workers == 0 {
			p.Workers = nWorkers()
		}
		if p.Workers > p.Count {
			p.Workers = p.Count
		}
		if p.Count == 0 {
			continue
		}
		if only := os.Getenv("VERIF_PARTS"); only != "" && !strings.Contains(","+only+",", ","+p.Name+",") {
			continue // debugging aid: run only the named parts
		}
		t0 := time.Now()
		res := runPart(prop, tier, seed, p)
		if res.err != nil {
			fmt.Fprintln(os.Stderr, "HARNESS ERROR:", res.err)
			return 2
		}
		ps := newSummary()
		for _, s := range res.sums {
			mergeSummary(ps, s)
			mergeSummary(total, s)
		}
		ps.WallS = time.Since(t0).Seconds()
		perPart[p.Name] = ps
		allViols = append(allViols, res.viols...)
		fmt.Printf("part %-7s runs=%d steps=%d switches=%d nontrivial=%d violations=%d wall=%.1fs\n", p.Name, ps.Runs, ps.Steps, ps.Switches, ps.Nontrivial, len(res.viols), ps.WallS)
		unknown := 0
		fs := loadFindings()
		for _, l := range res.viols {
			if matchFinding(fs, l.Viol) == nil {
				unknown++
			}
		}
		if unknown > 0 && tier == "quick" {
			break // fail fast
		}
	}

	// determinism sample (sched engines): a few indexes twice at different GOMAXPROCS
	det := map[string]interface{}{}
	if def.Store == nil && len(allViols) == 0 {
		n := 24
		if tier == "thorough" {
			n = 200
		}
		mism, compared, derr := determinismSample(prop, tier, seed, n)
		if derr != nil {
			fmt.Fprintln(os.Stderr, "HARNESS ERROR:", derr)
			return 2
		}
		det["indexes"] = n
		det["processes_compared"] = compared
		det["mismatches"] = mism
		if mism != 0 {
			fmt.Fprintf(os.Stderr, "HARNESS ERROR: determinism self-test failed: %d mismatches\n", mism)
			return 2
		}
	}

	// violations: confirm replays in a fresh process, apply known findings
	findings := loadFindings()
	sort.Slice(allViols, func(i, j int) bool { return allViols[i].Replay < allViols[j].Replay })
	newViol := 0
	knownSeen := map[string]bool{}
	for _, l := range allViols {
		if f := matchFinding(findings, l.Viol); f != nil {
			if !knownSeen[f.What] {
				knownSeen[f.What] = true
				fmt.Printf("KNOWN-FINDING: property=%s %s\n", prop, f.What)
			}
			continue
		}
		newViol++
		confirmed := confirmReplay(l.Replay)
		fmt.Printf("VIOLATION property=%s replay=%s\n", prop, l.Replay)
		fmt.Printf("  %s (replay confirmed in a fresh process: %v)\n", l.Viol.String(), confirmed)
	}

	// evidence
	ev := buildEvidence(def, prop, tier, seed, total, perPart, det, newViol, len(knownSeen), time.Since(start).Seconds())
	b, _ := json.MarshalIndent(ev, "", " ")
	if err := os.WriteFile(filepath.Join(verifDir, "evidence", prop+".json"), b, 0o644); err != nil {
		fmt.Fprintln(os.Stderr, "cannot write evidence:", err)
		return 2
	}
	frac := 0.0
	if total.Ops+total.Excluded > 0 {
		frac = float64(total.Excluded) / float64(total.Ops+total.Excluded)
	}
	if frac > 0.2 {
		fmt.Fprintf(os.Stderr, "HARNESS ERROR: %.0f%% of generated operations had no solo oracle: the workload is degenerate\n", frac*100)
		return 2
	}
	if n := unconfirmedDeaths.Load(); n > 8 && newViol == 0 {
		fmt.Fprintf(os.Stderr, "HARNESS ERROR: %d workers died or hung without the index reproducing alone\n", n)
		return 2
	}
	if total.FreeRun > 0 {
		// the scheduler lost control in these runs (a task blocked or spun for real) and let the
		// tasks run freely: their oracles still applied, their schedules were not the simulator's
		fmt.Fprintf(os.Stderr, "note: %d of %d runs fell back to free running (a task blocked for real for 2 s)\n", total.FreeRun, total.Runs)
	}
	if total.Runs > 200 && total.FreeRun*10 > total.Runs && newViol == 0 {
		fmt.Fprintf(os.Stderr, "HARNESS ERROR: %d of %d runs fell back to free running: the simulator does not control this build\n", total.FreeRun, total.Runs)
		return 2
	}
	fmt.Printf("done: runs=%d distinct_nontrivial=%d violations=%d known=%d wall=%.1fs\n", total.Runs, ev.Coverage["distinct_nontrivial"], newViol, len(knownSeen), time.Since(start).Seconds())
	if newViol > 0 {
		return 1
	}
	return 0
}

func confirmReplay(path string) bool {
	rf, err := props.LoadReplay(path)
	if err != nil {
		return false
	}
	cmd := exec.Command(binFor(rf.Race), "replay", path)
	cmd.Env = os.Environ()
	if rf.Race {
		cmd.Env = append(cmd.Env, "GORACE=log_path="+filepath.Join(workDir, "racereplay")+" halt_on_error=0 exitcode=0 history_size=3 suppress_equal_stacks=0 suppress_equal_addresses=0")
	}
	var out bytes.Buffer
	cmd.Stdout = &out
	cmd.Stderr = &out
	done := make(chan error, 1)
	cmd.SysProcAttr = &syscall.SysProcAttr{Setpgid: true}
	if err := cmd.Start(); err != nil {
		return false
	}
	go func() { done <- cmd.Wait() }()
	var werr error
	select {
	case werr = <-done:
	case <-time.After(180 * time.Second):
		syscall.Kill(-cmd.Process.Pid, syscall.SIGKILL)
		werr = <-done
		// a hang that hangs again is confirmed
		if rf.Violation != nil && rf.Violation.Kind == "hang" {
			return true
		}
		return false
	}
	code := 0
	if ee, ok := werr.(*exec.ExitError); ok {
		code = ee.ExitCode()
	}
	confirmed := code == 1 && strings.Contains(out.String(), "VIOLATION property=")
	if rf.Violation != nil && rf.Violation.Kind == "fatal" && code != 0 && code != 2 {
		confirmed = true
	}
	if confirmed != rf.Confirmed {
		rf.Confirmed = confirmed
		rf.Write(path)
	}
	return confirmed
}

func mergeSummary(dst, s *Summary) {
	dst.Runs += s.Runs
	dst.Ops += s.Ops
	for k, v := range s.OpsByKind {
		dst.OpsByKind[k] += v
	}
	dst.Excluded += s.Excluded
	dst.Steps += s.Steps
	dst.Switches += s.Switches
	dst.Decisions += s.Decisions
	dst.Nontrivial += s.Nontrivial
	dst.Hashes = append(dst.Hashes, s.Hashes...)
	dst.FreeRun += s.FreeRun
	for k, v := range s.Faults {
		dst.Faults[k] += v
	}
	for k, v := range s.Probes {
		dst.Probes[k] += v
	}
	for k, v := range s.Pairs {
		dst.Pairs[k] += v
	}
	for k, v := range s.Policies {
		dst.Policies[k] += v
	}
	for k, v := range s.Families {
		dst.Families[k] += v
	}
	if len(dst.Samples) < 4 {
		dst.Samples = append(dst.Samples, s.Samples...)
		if len(dst.Samples) > 4 {
			dst.Samples = dst.Samples[:4]
		}
	}
	dst.TraceHash ^= s.TraceHash
	dst.Violations += s.Violations
	dst.SweepJobs += s.SweepJobs
	dst.SweepRuns += s.SweepRuns
	if s.MaxInFlight > dst.MaxInFlight {
		dst.MaxInFlight = s.MaxInFlight
	}
	dst.StoppedEarly = dst.StoppedEarly || s.StoppedEarly
	dst.RaceLogBytes += s.RaceLogBytes
	dst.DistinctCases += s.DistinctCases
	if s.Store != nil {
		if dst.Store == nil {
			dst.Store = &props.StoreStats{}
		}
		dst.Store.Merge(s.Store)
	}
}

// determinismSample runs n random indexes in three fresh processes with
// different GOMAXPROCS and compares the folded (index, interleaving id,
// violation count) hashes.
func determinismSample(prop, tier string, seed uint64, n int) (mismatches, compared int, err error) {
	var hashes []uint64
	for _, procs := range []string{"1", "4", "16"} {
		cmd := exec.Command(binFor(false), "worker", "prop="+prop, "tier="+tier, "seed="+strconv.FormatUint(seed, 10), "part=random", "from=0", "to="+strconv.Itoa(n), "stride=1", "out="+workDir)
		cmd.Env = append(os.Environ(), "GOMAXPROCS="+procs)
		out, e := cmd.Output()
		if e != nil {
			return 0, 0, fmt.Errorf("determinism sample worker failed: %v", e)
		}
		var sum *Summary
		for _, line := range bytes.Split(out, []byte("\n")) {
			var l Line
			if json.Unmarshal(line, &l) == nil && l.Ev == "summary" {
				sum = l.Sum
			}
		}
		if sum == nil {
			return 0, 0, fmt.Errorf("determinism sample worker gave no summary")
		}
		hashes = append(hashes, sum.TraceHash)
		compared++
	}
	for _, h := range hashes[1:] {
		if h != hashes[0] {
			mismatches++
		}
	}
	return mismatches, compared, nil
}
