package main

import (
	"fmt"
	"os"
	"strings"

	"verifsim/props"
)

// raceLog watches the race detector's log file (GORACE=log_path=...). The
// race runtime appends ".<pid>" to the configured path. A report that appears
// during a run belongs to that run: the run is fully serialised, so nothing
// else is executing.
type raceLog struct {
	path string
	off  int64
}

func newRaceLog(race bool) *raceLog {
	if !race {
		return &raceLog{}
	}
	base := ""
	for _, kv := range strings.Fields(os.Getenv("GORACE")) {
		if strings.HasPrefix(kv, "log_path=") {
			base = strings.TrimPrefix(kv, "log_path=")
		}
	}
	if base == "" {
		panic(props.HarnessError{Msg: "race worker needs GORACE=log_path=..."})
	}
	return &raceLog{path: fmt.Sprintf("%s.%d", base, os.Getpid())}
}

func (r *raceLog) size() int64 { return r.off }

// check returns the text added to the log since the last call.
func (r *raceLog) check() string {
	if r.path == "" {
		return ""
	}
	st, err := os.Stat(r.path)
	if err != nil || st.Size() <= r.off {
		return ""
	}
	f, err := os.Open(r.path)
	if err != nil {
		return ""
	}
	defer f.Close()
	buf := make([]byte, st.Size()-r.off)
	n, _ := f.ReadAt(buf, r.off)
	r.off += int64(n)
	return string(buf[:n])
}

func isStdFrame(fn string) bool {
	if strings.HasPrefix(fn, "github.com/") || strings.HasPrefix(fn, "verifsim/") || strings.HasPrefix(fn, "main.") {
		return false
	}
	return true
}

// raceViolation turns a race report into a violation if, in both access
// stacks, the innermost non-standard-library frame belongs to plenc (not to
// the harness and not to the verif hook files).
func raceViolation(prop, report string) *props.Violation {
	blocks := strings.Split(report, "WARNING: DATA RACE")
	for _, blk := range blocks[1:] {
		// the two access stacks are the first two paragraphs
		paras := strings.Split(blk, "\n\n")
		var sites []string
		var writes []bool
		ok, accesses := 0, 0
		for _, para := range paras {
			lines := strings.Split(strings.TrimSpace(para), "\n")
			if len(lines) < 2 {
				continue
			}
			h := lines[0]
			if !(strings.Contains(h, " at 0x") && strings.Contains(h, "by ")) {
				continue
			}
			accesses++
			// frames: function line followed by file line, innermost first
			for i := 1; i+1 < len(lines); i += 2 {
				fn := strings.TrimSpace(lines[i])
				file := strings.TrimSpace(lines[i+1])
				if isStdFrame(fn) {
					continue
				}
				if strings.HasPrefix(fn, "github.com/philpearl/plenc") && !strings.Contains(file, "/verif_on.go") {
					ok++
					sites = append(sites, strings.TrimSuffix(strings.TrimPrefix(fn, "github.com/philpearl/plenc"), "()")+" "+shortFile(file))
					writes = append(writes, strings.Contains(strings.ToLower(h), "write"))
				}
				break
			}
			if accesses == 2 {
				break
			}
		}
		if ok >= 2 && !raceBelongsTo(prop, sites, writes) {
			otherPropertyRaces++
			continue
		}
		if ok >= 2 {
			first := strings.SplitN(strings.TrimSpace(blk), "\n", 2)[0]
			return &props.Violation{Prop: prop, Kind: "race", Task: -1, OpIdx: -1, OpKind: "run", Site: sites[0],
				Msg: fmt.Sprintf("data race reported by the race detector in a serialised run: %s | %s <-> %s", strings.TrimSpace(first), sites[0], sites[1])}
		}
	}
	return nil
}

func shortFile(f string) string {
	if i := strings.Index(f, " +0x"); i > 0 {
		f = f[:i]
	}
	if src := os.Getenv("VERIF_PLENC_SRC"); src != "" {
		f = strings.TrimPrefix(f, src+"/")
	}
	return strings.TrimPrefix(f, "/repo/")
}

// otherPropertyRaces counts reports that are real plenc races but belong to
// another property's statement (reported by that property's check).
var otherPropertyRaces int

// raceBelongsTo decides whether a plenc race is a violation of the property
// under test. C07 (no data races, full stop): any. C19: a race on the interning
// machinery. C11 (Marshal does not modify the value): a write on the encode
// path (Append / Size / Omit / Marshal) racing with anything.
func raceBelongsTo(prop string, sites []string, writes []bool) bool {
	switch prop {
	case "C19":
		for _, s := range sites {
			if strings.Contains(s, "Intern") || strings.Contains(s, "intern") {
				return true
			}
		}
		return false
	case "C11":
		for i, s := range sites {
			fn := strings.Fields(s)[0]
			if i < len(writes) && writes[i] && (strings.HasSuffix(fn, ".append") || strings.HasSuffix(fn, ".Append") || strings.HasSuffix(fn, ".size") || strings.HasSuffix(fn, ".Size") || strings.HasSuffix(fn, ".Omit") || strings.HasSuffix(fn, ".Marshal")) {
				return true
			}
		}
		return false
	case "C10":
		return false
	}
	return true
}
