package main

import (
	"encoding/json"
	"fmt"
	"os"
	"os/exec"
	"sort"
	"strconv"
	"strings"
	"time"

	"verifsim/engine"
	"verifsim/props"
)

// PropDef wires one property into the command.
type PropDef struct {
	ID            string
	Level         string
	Gen           func(seed uint64, idx int) *props.Scenario
	Hooks         func() props.PropHooks
	SweepJobs     func(seed uint64, quick bool) []props.SweepJob
	SweepScenario func(seed uint64, job props.SweepJob, jobIdx, i int) *props.Scenario
	Parts         func(tier string, seed uint64) []part
	Store         func(w workerArgs, sum *Summary, start time.Time, deadline time.Time) int
	Echo          bool // echo runs: results must not depend on what the process did before
	Rule          string
	Assumptions   []string
	Components    map[string]interface{}
}

func (d *PropDef) hooks() props.PropHooks {
	if d.Hooks == nil {
		return nil
	}
	return d.Hooks()
}

func (d *PropDef) hooks2() func() props.PropHooks { return d.Hooks }

var schedComponents = map[string]interface{}{
	"real":   []string{"every line of plenc (root, plenccodec, plenccore, null) built from /repo's working tree with -tags verif", "sync.Map, sync.Mutex, sync/atomic as used by plenc", "runtime map functions reached through plenc's linknames", "goroutines (one per simulated caller)"},
	"owned":  []string{"which goroutine runs next at every yield point (seeded scheduler, raw-pipe hand-off invisible to the race detector)", "sync.Pool policy of MapCodec.kPool (fresh / recycled-dirty / dropped) through the verif pool seam", "caller-owned buffers, targets and values"},
	"absent": []string{"clock, timers, network, disk: plenc has none"},
}

var propDefs = map[string]*PropDef{}

func init() {
	propDefs["C07"] = &PropDef{
		ID: "C07", Level: "exploration", Echo: true,
		Gen:           props.GenC07,
		SweepJobs:     props.C07SweepJobs,
		SweepScenario: props.SweepScenario,
		Parts: func(tier string, seed uint64) []part {
			jobs := len(props.C07SweepJobs(seed, tier == "quick"))
			if tier == "quick" {
				return []part{{Name: "sweep", Count: jobs}, {Name: "random", Count: int(envInt("VERIF_C07_RUNS", 120000))}, {Name: "race", Count: int(envInt("VERIF_C07_RACE_RUNS", 16000)), Base: 1000000, Race: true}}
			}
			return []part{{Name: "sweep", Count: jobs}, {Name: "random", Count: int(envInt("VERIF_C07_RUNS", 3000000))}, {Name: "race", Count: int(envInt("VERIF_C07_RACE_RUNS", 400000)), Base: 1000000, Race: true}}
		},
		Rule: "runs = scenarios (fresh instance or reset default, 2-6 simulated caller goroutines, 1-4 operations each: Marshal / Unmarshal / CodecForType+use, types of one family so that first uses collide) executed under a seeded schedule; sweep part = one preemption placed at every yield index of the first operation for ordered pairs of first-use operations. A run is non-trivial when at least 2 tasks were in flight at once and at least one hand-off happened inside an operation; distinct = distinct interleaving ids (hash of the full (task, yield site) sequence) among non-trivial runs",
		Assumptions: []string{
			"preemption only at the instrumented yield sites; between two sites a task runs atomically (the -race part covers unordered conflicting accesses wherever they are, because it reasons on happens-before, not on timing)",
			"the solo oracle (same operation alone on a brand-new identically configured instance) is the reference; operations whose solo run panics are excluded and counted",
			"weak-memory reorderings beyond what the race detector models are not explored",
		},
		Components: schedComponents,
	}
}

var storeComponents = map[string]interface{}{
	"real":   []string{"every line of plenc's decoders (Unmarshal of every codec, Skip, Descriptor.Read + JSONOutput) built from /repo's working tree with -tags verif", "one long-lived instance per configuration shared by damaged and healthy traffic"},
	"owned":  []string{"the record store between writer and readers: which bytes a reader is handed (fault model), the buffer they sit in (exact capacity / stale tail of the previous record / FF tail)", "step counter at every decode loop (verif yield hook) with a budget that turns an endless loop into a violation", "allocation meter (runtime/metrics screening, runtime.MemStats exact re-measurement and 1-in-16 sampling)", "process containment: worker address-space limit, parent watchdog with isolated confirmation"},
	"absent": []string{"scheduler (single caller), clock, network, disk"},
}

func init() {
	propDefs["C04"] = &PropDef{
		ID: "C04", Level: "fault_enumeration",
		Store: storeWorker,
		Parts: func(tier string, seed uint64) []part {
			if tier == "quick" {
				return []part{{Name: "store", Count: int(envInt("VERIF_C04_RECORDS", 2400))}, {Name: "short", Count: int(envInt("VERIF_C04_SHORT", 192))}, {Name: "history", Count: 4}, {Name: "scale", Count: props.ScaleJobs()}, {Name: "deep", Count: props.DeepCount()}}
			}
			return []part{{Name: "store", Count: int(envInt("VERIF_C04_RECORDS", 12000))}, {Name: "short", Count: int(envInt("VERIF_C04_SHORT", 200))}, {Name: "history", Count: 8}, {Name: "scale", Count: props.ScaleJobs()}, {Name: "deep", Count: props.DeepCount()}}
		},
		Rule: "evaluations = decodes. For every generated valid record (type x configuration from the world's families, canonical encoding) the store applies EVERY single fault of each class - truncation at every byte, every single-bit flip, every byte forced to 00/7F/80/FF, maximal varint and zero block inserted at / written over every offset, 1-4 byte blocks dropped and duplicated at every offset, prefix-of-A + suffix-of-B splices - and hands each damaged record to every reader (Unmarshal into the writer's type, into version siblings and unrelated types, Descriptor-driven JSON) under three presentations (exact capacity, spare capacity holding the previous record, spare capacity holding FF); plus unrelated short blocks (all strings of length <= 1, every 7th (quick) or every (thorough) 2-byte string, 3-4 bytes over a boundary alphabet) per reader type. distinct_nontrivial = distinct (damaged input, reader, mode) triples, each of which differs from the undamaged record by construction. Complete over the single-fault classes for the records generated; the records themselves are sampled",
		Assumptions: []string{
			"allocation is screened with runtime/metrics (large allocations are counted at once, small ones with span-granularity lag), every suspect and one decode in 16 is measured exactly with runtime.MemStats; allowance = 64 KiB + K_T per input byte with K_T = 64 + 16 x the largest slice element / map entry / pointee size reachable in the reader's type",
			"a decode that exceeds 64 + 16 x len(input) steps at the instrumented loops is a hang; loops without a hook are covered by the parent's watchdog with confirmation in an isolated process",
			"inputs are damaged valid records and short blocks, not arbitrary long byte strings or coverage-guided inputs (that part of the quantifier is outside this technique)",
			"growth is sampled, not proved: the scale probe compares cost per decode step at 256..4096 (thorough 16384) elements using the worker thread's CPU time; the deep probe feeds megabyte inputs of a few regular shapes (flat repetitions, self-nesting)",
			"quick tier only: the deep probe lowers Go's cap on a goroutine stack from 1 GB to 64 MB (debug.SetMaxStack) and scales its inputs down accordingly; the thorough tier runs under the default cap",
		},
		Components: storeComponents,
	}
}

func schedParts(id string, sweep func(uint64, bool) []props.SweepJob, qRuns, qRace, tRuns, tRace int) func(string, uint64) []part {
	return func(tier string, seed uint64) []part {
		var ps []part
		if sweep != nil {
			ps = append(ps, part{Name: "sweep", Count: len(sweep(seed, tier == "quick"))})
		}
		runs, race := qRuns, qRace
		if tier != "quick" {
			runs, race = tRuns, tRace
		}
		ps = append(ps, part{Name: "random", Count: int(envInt("VERIF_"+id+"_RUNS", int64(runs)))})
		ps = append(ps, part{Name: "race", Count: int(envInt("VERIF_"+id+"_RACE_RUNS", int64(race))), Base: 1000000, Race: true})
		return ps
	}
}

func init() {
	propDefs["C19"] = &PropDef{
		ID: "C19", Level: "exploration",
		Gen:           props.GenC19,
		SweepJobs:     props.C19SweepJobs,
		SweepScenario: props.SweepScenario,
		Parts:         schedParts("C19", props.C19SweepJobs, 40000, 5000, 2000000, 300000),
		Rule:          "runs = scenarios in which 1-6 simulated caller goroutines decode streams of records of types with interned string fields (several tables per struct, null.String, interned fields inside slice elements and map values) from re-used ring buffers that are overwritten between calls; strings come from a per-run vocabulary built to collide (new, repeated, empty, one byte, shared prefixes, binary, invalid UTF-8). Every decode is compared with the solo decode and with the non-interned twin type's decode of the same bytes, every encoding with the twin's, every held string is re-checked against an independent copy after each scribble and at the end. Sweep part: one preemption at every yield of the first of two decodes that insert the same / different new strings. Non-trivial = at least 2 tasks in flight and at least one hand-off inside an operation; distinct = distinct interleaving ids",
		Assumptions: []string{
			"preemption only at the instrumented sites (intern.miss, before Lock, intern.locked, intern.publish and the decode loops); the -race part covers unordered accesses to the table elsewhere",
			"pointer identity and whether a string was actually interned are deliberately not checked: losing an insert to a concurrent one is transparent",
			"the twin types are structurally identical except for the intern option",
		},
		Components: schedComponents,
	}
	propDefs["C11"] = &PropDef{
		ID: "C11", Level: "exploration",
		Gen:   props.GenC11,
		Parts: schedParts("C11", nil, 150000, 12000, 2500000, 250000),
		Rule:  "runs = scenarios in the message-pump shape: 1-3 simulated caller goroutines copy records into re-used ring buffers (old bytes left beyond the record), decode them, keep the decoded values together with independent expected copies, append Marshal output to an output log, and - as injected faults at scheduler-chosen instants - overwrite the ring buffers (00 / FF / increment / random), overwrite the byte slices of a marshalled value and overwrite returned bytes. After every such event all live decoded values are re-compared; input bytes, the prefix of the output log (in its original backing array) and the marshalled value are compared with snapshots. Non-trivial runs / distinct as for C07",
		Assumptions: []string{
			"aliasing is observed through content: a decoded string that aliases the input changes when the buffer is overwritten with a different pattern; patterns that happen to write identical bytes cannot expose it (four different patterns are used)",
			"expected copies come from the solo decode, deep-copied by the harness into fresh memory",
		},
		Components: schedComponents,
	}
	propDefs["C10"] = &PropDef{
		ID: "C10", Level: "exploration", Echo: true,
		Gen:   props.GenC10,
		Parts: schedParts("C10", nil, 120000, 5000, 3000000, 100000),
		Rule:  "runs = histories on one long-lived instance: 1-3 simulated caller goroutines, 4-8 operations each: decode into a fresh target, decode into a re-used target (previously holding longer / shorter / differently populated values, so capacity is re-used with stale elements beyond len), decode a torn record (aborted operation), Marshal; sync.Pool policy of the map key scratch owned by the simulator (recycled-dirty 70% / fresh / dropped). Oracles: fresh decodes equal the solo decode on a brand-new instance (history independence); a re-used target equals an exactly-sized deep copy of its prior value after decoding the same bytes (physical twin); slices present in the data hold exactly the encoded elements; on the merge family the executable merge rules of the statement. Non-trivial / distinct as for C07, plus single-task histories count as non-trivial when a target or pooled scratch was re-used",
		Assumptions: []string{
			"where the statement is silent (struct-valued map entries under an existing key) no expectation is encoded: the merge model is only applied to types whose map values are scalars, strings or pointers to scalars, and only when the fresh round trip of the value is the identity",
			"a target that received a failed decode is dropped from value checks; the instance, pool and tables stay checked",
		},
		Components: schedComponents,
	}
}

// Evidence is the evidence file.
type Evidence struct {
	PropertyID  string                 `json:"property_id"`
	Tier        string                 `json:"tier"`
	Seed        int64                  `json:"seed"`
	Level       string                 `json:"level"`
	Coverage    map[string]interface{} `json:"coverage"`
	Assumptions []string               `json:"assumptions"`
	WallS       float64                `json:"wall_s"`
	Violations  int                    `json:"violations"`
}

func buildEvidence(def *PropDef, prop, tier string, seed uint64, total *Summary, perPart map[string]*Summary, det map[string]interface{}, viol, known int, wall float64) *Evidence {
	distinct := map[uint64]bool{}
	for _, h := range total.Hashes {
		distinct[h] = true
	}
	cov := map[string]interface{}{}
	ev := &Evidence{PropertyID: prop, Tier: tier, Seed: int64(seed), Level: def.Level, Coverage: cov, Assumptions: def.Assumptions, WallS: wall, Violations: viol}
	nd := len(distinct)
	if total.Store != nil {
		nd = total.Store.DistinctDamaged
		cov["evaluations"] = total.Store.Decodes
		cov["store"] = total.Store
	} else {
		cov["evaluations"] = total.Runs
	}
	cov["distinct_nontrivial"] = nd
	cov["rule"] = def.Rule
	var samples []interface{}
	for _, s := range total.Samples {
		var x interface{}
		json.Unmarshal(s, &x)
		samples = append(samples, x)
	}
	if len(samples) == 0 {
		samples = append(samples, "no sample recorded")
	}
	cov["samples"] = samples
	cov["exhaustive"] = false
	cov["runs"] = total.Runs
	cov["operations"] = total.Ops
	cov["operations_by_kind"] = total.OpsByKind
	cov["ops_excluded_solo"] = total.Excluded
	cov["logical_steps"] = total.Steps
	cov["simulated_time"] = "n/a - plenc has no clock, timer or deadline; progress is measured in logical steps (yields)"
	cov["runs_per_hour"] = int64(float64(total.Runs) / wall * 3600)
	cov["steps_per_hour"] = int64(float64(total.Steps) / wall * 3600)
	cov["faults_fired"] = total.Faults
	cov["probes"] = total.Probes
	cov["policies"] = total.Policies
	cov["nontrivial_runs"] = total.Nontrivial
	cov["max_tasks_in_flight"] = total.MaxInFlight
	cov["free_run_fallbacks"] = total.FreeRun
	cov["known_findings_seen"] = known
	if total.SweepJobs > 0 {
		cov["sweep"] = map[string]int{"ordered_pairs": total.SweepJobs, "placements_run": total.SweepRuns}
	}
	// site pair coverage
	possible := engine.NumSites * engine.NumSites
	type kv struct {
		K string
		V uint32
	}
	var top []kv
	for k, v := range total.Pairs {
		top = append(top, kv{k, v})
	}
	sort.Slice(top, func(i, j int) bool { return top[i].V > top[j].V || top[i].V == top[j].V && top[i].K < top[j].K })
	tp := map[string]uint32{}
	for i, e := range top {
		if i >= 25 {
			break
		}
		tp[e.K] = e.V
	}
	cov["site_pair_coverage"] = map[string]interface{}{"covered": len(total.Pairs), "possible": possible, "measure": "(yield site at which a task was preempted) x (first yield site the next task executed)", "top": tp}
	parts := map[string]interface{}{}
	for name, s := range perPart {
		parts[name] = map[string]interface{}{"runs": s.Runs, "steps": s.Steps, "switches": s.Switches, "nontrivial": s.Nontrivial, "wall_s": s.WallS, "race_log_bytes": s.RaceLogBytes, "stopped_early": s.StoppedEarly}
	}
	cov["parts"] = parts
	cov["determinism"] = det
	cov["components"] = def.Components
	cov["stopped_early"] = total.StoppedEarly
	return ev
}

// ---------------------------------------------------------------------------
// replay

func runReplay(path string) int {
	rf, err := props.LoadReplay(path)
	if err != nil {
		fmt.Fprintln(os.Stderr, "cannot load replay file:", err)
		return 2
	}
	def := propDefs[rf.Property]
	if def == nil {
		fmt.Fprintln(os.Stderr, "unknown property in replay file")
		return 2
	}
	fmt.Printf("replaying %s: %s\n", path, rf.Violation.String())
	if os.Getenv("VERIF_REPLAY_CHILD") != "1" {
		// in a child process: the violation may be a fatal error of the runtime (a crash
		// in the code under test that recover cannot catch)
		cmd := exec.Command(os.Args[0], "replay", path)
		cmd.Env = append(os.Environ(), "VERIF_REPLAY_CHILD=1")
		var eb headBuffer
		cmd.Stdout, cmd.Stderr = os.Stdout, &eb
		err := cmd.Run()
		if err == nil {
			return 0
		}
		if ee, ok := err.(*exec.ExitError); ok && ee.ExitCode() == 1 {
			return 1
		}
		st := eb.String()
		for _, key := range []string{"fatal error:", "unexpected signal", "panic:", "runtime: out of memory"} {
			if i := strings.Index(st, key); i >= 0 {
				line := st[i:]
				if j := strings.IndexByte(line, '\n'); j > 0 {
					line = line[:j]
				}
				fmt.Printf("VIOLATION property=%s replay=%s\n  reproduced: the process died: %s\n", rf.Property, path, line)
				return 1
			}
		}
		fmt.Fprintln(os.Stderr, "replay child failed:", err, tail(st, 2000))
		return 2
	}
	if rf.Engine == "store" {
		return props.ReplayStore(rf)
	}
	if rf.Engine == "echo" && rf.Echo != nil && rf.Echo.Part != "" {
		// a worker process that died after a history of runs: the same share again, in a child
		e := rf.Echo
		cmd := exec.Command(os.Args[0], "worker", "prop="+rf.Property, "tier="+e.Tier, "seed="+strconv.FormatUint(e.Seed, 10), "part="+e.Part,
			"from="+strconv.Itoa(e.From), "to="+strconv.Itoa(e.To+1), "stride="+strconv.Itoa(e.Stride), "race=0", "out="+os.TempDir())
		var eb headBuffer
		cmd.Stderr = &eb
		err := cmd.Run()
		st := eb.String()
		if err != nil {
			for _, key := range []string{"fatal error:", "unexpected signal", "panic:", "runtime: out of memory"} {
				if i := strings.Index(st, key); i >= 0 {
					line := st[i:]
					if j := strings.IndexByte(line, '\n'); j > 0 {
						line = line[:j]
					}
					fmt.Printf("VIOLATION property=%s replay=%s\n  reproduced: after runs %d, %d, ... the process died at run %d: %s\n", rf.Property, path, e.From, e.From+e.Stride, e.To, line)
					return 1
				}
			}
			fmt.Fprintln(os.Stderr, "replay worker failed:", err, tail(st, 1500))
			return 2
		}
		fmt.Println("not reproduced: the worker's share ran to the end")
		return 0
	}
	if rf.Engine == "echo" && rf.Echo != nil {
		e := rf.Echo
		var first uint64
		for idx := e.From; idx <= e.To; idx += e.Stride {
			sc := def.Gen(e.Seed, idx)
			out := props.Execute(props.Prepare(sc, true), def.hooks(), nil, false)
			if idx == e.From {
				first = out.ResultHash
			}
		}
		sc := def.Gen(e.Seed, e.From)
		out := props.Execute(props.Prepare(sc, true), def.hooks(), nil, false)
		if out.ResultHash != first {
			fmt.Printf("VIOLATION property=%s replay=%s\n  reproduced: scenario %d returns different results after scenarios %d..%d ran in the same process\n", rf.Property, path, e.From, e.From+e.Stride, e.To)
			return 1
		}
		fmt.Println("not reproduced: both executions returned the same results")
		return 0
	}
	rl := newRaceLog(rf.Race && os.Getenv("GORACE") != "")
	decs, err := engine.ParseDecs(rf.Decisions)
	if err != nil {
		fmt.Fprintln(os.Stderr, err)
		return 2
	}
	want := rf.Violation.Class()
	var out *props.Outcome
	// The race detector's shadow memory keeps a bounded history whose eviction
	// depends on what the process did before, so a serialised run that
	// contains a race is re-executed a few times until the report appears.
	attempts := 1
	if rf.Race && rf.Violation.Kind == "race" {
		attempts = 12
	}
	for a := 0; a < attempts; a++ {
		var ok bool
		out, ok = props.RunForced(rf.Scenario, def.hooks2(), decs, rf.UsePolicy)
		if !ok {
			fmt.Fprintln(os.Stderr, "the solo oracle of the stored scenario fails on this tree: file and tree no longer match")
			return 2
		}
		if rep := rl.check(); rep != "" {
			if v := raceViolation(rf.Property, rep); v != nil {
				out.Violations = append(out.Violations, v)
			}
		}
		if len(out.Violations) > 0 {
			break
		}
	}
	if !rf.UsePolicy && out.Stats.Mismatch > 0 {
		fmt.Printf("note: %d recorded decisions were infeasible on this tree\n", out.Stats.Mismatch)
	}
	for _, v := range out.Violations {
		if v.Class() == want {
			fmt.Printf("VIOLATION property=%s replay=%s\n  reproduced: %s\n", rf.Property, path, v.String())
			return 1
		}
	}
	if len(out.Violations) > 0 {
		fmt.Printf("VIOLATION property=%s replay=%s\n  a different violation appeared: %s\n", rf.Property, path, out.Violations[0].String())
		return 1
	}
	fmt.Println("not reproduced: the run completed without a violation")
	return 0
}

// ---------------------------------------------------------------------------
// selftest: determinism over many seeds and processes

func runSelftest(prop string) int {
	n := int(envInt("VERIF_SELFTEST_N", 200))
	seed := uint64(envInt("VERIF_SEED", 1))
	workDir, _ = os.MkdirTemp("", "selftest-")
	defer os.RemoveAll(workDir)
	bad := 0
	for rep := 0; rep < 3; rep++ {
		m, c, err := determinismSample(prop, "quick", seed+uint64(rep), n)
		if err != nil {
			fmt.Fprintln(os.Stderr, err)
			return 2
		}
		fmt.Printf("seed %d: %d indexes x %d processes, mismatches %d\n", seed+uint64(rep), n, c, m)
		bad += m
	}
	if bad != 0 {
		return 1
	}
	return 0
}

var _ = strconv.Itoa

// headBuffer keeps the first 256 KB written to it (a crash report starts with
// its reason and goes on for megabytes).
type headBuffer struct{ b []byte }

func (h *headBuffer) Write(p []byte) (int, error) {
	if room := 256<<10 - len(h.b); room > 0 {
		if len(p) < room {
			room = len(p)
		}
		h.b = append(h.b, p[:room]...)
	}
	return len(p), nil
}

func (h *headBuffer) String() string { return string(h.b) }
