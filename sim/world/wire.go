package world

import (
	"bytes"
	"encoding/binary"
	"errors"
	"fmt"
	"reflect"
	"sort"
	"strconv"
	"strings"
)

// Wire types (the documented protobuf-like format).
const (
	WTVarInt = 0
	WT64     = 1
	WTLength = 2
	WTSlice  = 3
	WT32     = 5
)

var errWire = errors.New("canon: malformed encoding")

func uvarint(b []byte) (uint64, int, error) {
	v, n := binary.Uvarint(b)
	if n <= 0 {
		return 0, 0, errWire
	}
	return v, n, nil
}

// Canon returns a copy of a valid encoding of a value of type t in which the
// entries of every map are sorted bytewise. Go's map iteration order is the one
// source of nondeterminism the simulator cannot own, so every encoding that is
// stored in a scenario or compared with another goes through here first.
// Lengths never change, only the order of map entries.
func Canon(t reflect.Type, data []byte) ([]byte, error) {
	out := append([]byte(nil), data...)
	for t.Kind() == reflect.Ptr {
		t = t.Elem()
	}
	var err error
	switch {
	case t.Kind() == reflect.Struct && t != tTime && !isNullType(t):
		err = canonStruct(structLookup(t), out)
	case t.Kind() == reflect.Map:
		err = canonValue(t, WTSlice, out)
	case t.Kind() == reflect.Slice:
		if isPackedElem(t.Elem()) || t.Elem().Kind() == reflect.Uint8 {
			return out, nil
		}
		err = canonValue(t, WTSlice, out)
	}
	if err != nil {
		return nil, err
	}
	return out, nil
}

func isScalarKind(t reflect.Type) bool {
	for t.Kind() == reflect.Ptr {
		t = t.Elem()
	}
	switch t.Kind() {
	case reflect.Bool, reflect.Int, reflect.Int8, reflect.Int16, reflect.Int32, reflect.Int64,
		reflect.Uint, reflect.Uint8, reflect.Uint16, reflect.Uint32, reflect.Uint64, reflect.Float32, reflect.Float64:
		return true
	}
	return false
}

type lookup func(idx int) (reflect.Type, bool)

func structLookup(t reflect.Type) lookup {
	m := map[int]reflect.Type{}
	for i := 0; i < t.NumField(); i++ {
		sf := t.Field(i)
		if sf.PkgPath != "" {
			continue
		}
		tag := sf.Tag.Get("plenc")
		if tag == "" || tag == "-" {
			continue
		}
		if c := strings.IndexByte(tag, ','); c >= 0 {
			tag = tag[:c]
		}
		idx, err := strconv.Atoi(tag)
		if err != nil {
			continue
		}
		m[idx] = sf.Type
	}
	return func(idx int) (reflect.Type, bool) { t, ok := m[idx]; return t, ok }
}

func entryLookup(mt reflect.Type) lookup {
	return func(idx int) (reflect.Type, bool) {
		switch idx {
		case 1:
			return mt.Key(), true
		case 2:
			return mt.Elem(), true
		}
		return nil, false
	}
}

// sliceExtent returns the length of a WTSlice body (count + count x (len,payload)).
func sliceExtent(d []byte) (int, error) {
	count, n, err := uvarint(d)
	if err != nil {
		return 0, err
	}
	off := n
	for i := uint64(0); i < count; i++ {
		if off > len(d) {
			return 0, errWire
		}
		l, n, err := uvarint(d[off:])
		if err != nil {
			return 0, err
		}
		off += n
		if l > uint64(len(d)-off) {
			return 0, errWire
		}
		off += int(l)
	}
	return off, nil
}

// forEachEntry walks a WTSlice body and calls f with the [start,end) of each
// entry including its length prefix and the payload bounds.
func forEachEntry(d []byte, f func(start, pstart, end int) error) error {
	count, n, err := uvarint(d)
	if err != nil {
		return err
	}
	off := n
	for i := uint64(0); i < count; i++ {
		l, n, err := uvarint(d[off:])
		if err != nil {
			return err
		}
		ps := off + n
		if l > uint64(len(d)-ps) {
			return errWire
		}
		end := ps + int(l)
		if err := f(off, ps, end); err != nil {
			return err
		}
		off = end
	}
	return nil
}

type seg struct{ a, b int }

func sortSegs(d []byte, segs []seg) {
	if len(segs) < 2 {
		return
	}
	blobs := make([][]byte, len(segs))
	for i, s := range segs {
		blobs[i] = append([]byte(nil), d[s.a:s.b]...)
	}
	sort.Slice(blobs, func(i, j int) bool { return bytes.Compare(blobs[i], blobs[j]) < 0 })
	off := segs[0].a
	for _, b := range blobs {
		copy(d[off:], b)
		off += len(b)
	}
}

func canonValue(t reflect.Type, wt int, d []byte) error {
	for t.Kind() == reflect.Ptr {
		t = t.Elem()
	}
	if t == tTime || isNullType(t) {
		return nil
	}
	switch t.Kind() {
	case reflect.Struct:
		return canonStruct(structLookup(t), d)
	case reflect.Map:
		if t.Elem().Kind() == reflect.Interface {
			return canonJSONMap(d)
		}
		if wt == WTLength {
			// protobuf form: d is a single entry
			return canonStruct(entryLookup(t), d)
		}
		var segs []seg
		err := forEachEntry(d, func(start, ps, end int) error {
			segs = append(segs, seg{start, end})
			return canonStruct(entryLookup(t), d[ps:end])
		})
		if err != nil {
			return err
		}
		sortSegs(d, segs)
		return nil
	case reflect.Slice:
		et := t.Elem()
		if et.Kind() == reflect.Interface {
			return canonJSONArr(d)
		}
		if et.Kind() == reflect.Uint8 || isPackedElem(et) {
			return nil
		}
		if wt == WTLength {
			// protobuf repeated form: d is one element
			return canonValue(et, WTLength, d)
		}
		return forEachEntry(d, func(start, ps, end int) error {
			return canonValue(et, WTLength, d[ps:end])
		})
	}
	return nil
}

func canonStruct(lk lookup, d []byte) error {
	type run struct {
		idx  int
		a, b int
	}
	var runs []run
	off := 0
	for off < len(d) {
		start := off
		tag, n, err := uvarint(d[off:])
		if err != nil {
			return err
		}
		off += n
		wt, idx := int(tag&7), int(tag>>3)
		ft, known := lk(idx)
		switch wt {
		case WTVarInt:
			_, n, err := uvarint(d[off:])
			if err != nil {
				return err
			}
			off += n
		case WT64:
			if len(d)-off < 8 {
				return errWire
			}
			off += 8
		case WT32:
			if len(d)-off < 4 {
				return errWire
			}
			off += 4
		case WTLength:
			l, n, err := uvarint(d[off:])
			if err != nil {
				return err
			}
			off += n
			if l > uint64(len(d)-off) {
				return errWire
			}
			if known {
				if err := canonValue(ft, WTLength, d[off:off+int(l)]); err != nil {
					return err
				}
				bt := ft
				for bt.Kind() == reflect.Ptr {
					bt = bt.Elem()
				}
				if bt.Kind() == reflect.Map && bt.Elem().Kind() != reflect.Interface {
					runs = append(runs, run{idx, start, off + int(l)})
				}
			}
			off += int(l)
		case WTSlice:
			ext, err := sliceExtent(d[off:])
			if err != nil {
				return err
			}
			if known {
				if err := canonValue(ft, WTSlice, d[off:off+ext]); err != nil {
					return err
				}
			}
			off += ext
		default:
			return fmt.Errorf("canon: wire type %d", wt)
		}
	}
	// protobuf-form maps: sort contiguous runs of entries of the same field
	i := 0
	for i < len(runs) {
		j := i + 1
		for j < len(runs) && runs[j].idx == runs[i].idx && runs[j].a == runs[j-1].b {
			j++
		}
		if j-i > 1 {
			segs := make([]seg, 0, j-i)
			for _, r := range runs[i:j] {
				segs = append(segs, seg{r.a, r.b})
			}
			sortSegs(d, segs)
		}
		i = j
	}
	return nil
}

func canonJSONMap(d []byte) error {
	var segs []seg
	err := forEachEntry(d, func(start, ps, end int) error {
		segs = append(segs, seg{start, end})
		return canonJSONKV(d[ps:end])
	})
	if err != nil {
		return err
	}
	sortSegs(d, segs)
	return nil
}

func canonJSONArr(d []byte) error {
	return forEachEntry(d, func(start, ps, end int) error {
		return canonJSONKV(d[ps:end])
	})
}

func canonJSONKV(d []byte) error {
	off := 0
	jtype := uint64(0)
	for off < len(d) {
		tag, n, err := uvarint(d[off:])
		if err != nil {
			return err
		}
		off += n
		wt, idx := int(tag&7), int(tag>>3)
		switch wt {
		case WTVarInt:
			v, n, err := uvarint(d[off:])
			if err != nil {
				return err
			}
			if idx == 2 {
				jtype = v
			}
			off += n
		case WT64:
			if len(d)-off < 8 {
				return errWire
			}
			off += 8
		case WTLength:
			l, n, err := uvarint(d[off:])
			if err != nil {
				return err
			}
			off += n
			if l > uint64(len(d)-off) {
				return errWire
			}
			off += int(l)
		case WTSlice:
			ext, err := sliceExtent(d[off:])
			if err != nil {
				return err
			}
			if idx == 3 {
				switch jtype {
				case 5:
					err = canonJSONArr(d[off : off+ext])
				case 6:
					err = canonJSONMap(d[off : off+ext])
				}
				if err != nil {
					return err
				}
			}
			off += ext
		default:
			return errWire
		}
	}
	return nil
}

// SameEncoding reports whether two encodings of a value of type t are equal up
// to the order of map entries.
func SameEncoding(t reflect.Type, a, b []byte) bool {
	if bytes.Equal(a, b) {
		return true
	}
	if len(a) != len(b) {
		return false
	}
	ca, err1 := Canon(t, a)
	cb, err2 := Canon(t, b)
	if err1 != nil || err2 != nil {
		return false
	}
	return bytes.Equal(ca, cb)
}

// PermuteFields rewrites a valid encoding of a value of type t the way another
// writer of the same wire format might have produced it: the fields of struct
// bodies and of map entries in a different order (a reader of a tagged format
// must not care). Lengths never change. next(n) draws from [0,n); changed
// reports whether any order was changed.
//
// entries: also permute the two fields of map entries. plenc itself only reads
// key-first entries as intended (a value-first entry is walked differently and
// the rest of the record may then fail to parse), so such records are hostile
// input rather than well-formed records as far as plenc is concerned.
func PermuteFields(t reflect.Type, data []byte, next func(n int) int, entries bool) (out []byte, changed bool) {
	out = append([]byte(nil), data...)
	for t.Kind() == reflect.Ptr {
		t = t.Elem()
	}
	p := &permuter{next: next, entries: entries}
	var err error
	switch {
	case t.Kind() == reflect.Struct && t != tTime && !isNullType(t):
		err = p.structBody(structLookup(t), out)
	case t.Kind() == reflect.Map || t.Kind() == reflect.Slice:
		err = p.value(t, WTSlice, out)
	}
	if err != nil {
		return append([]byte(nil), data...), false
	}
	return out, p.changed
}

type permuter struct {
	next    func(n int) int
	entries bool
	changed bool
	inEntry bool
}

func (p *permuter) value(t reflect.Type, wt int, d []byte) error {
	for t.Kind() == reflect.Ptr {
		t = t.Elem()
	}
	if t == tTime || isNullType(t) {
		return nil
	}
	switch t.Kind() {
	case reflect.Struct:
		return p.structBody(structLookup(t), d)
	case reflect.Map:
		if t.Elem().Kind() == reflect.Interface {
			return nil
		}
		if wt == WTLength {
			return p.entryBody(t, d)
		}
		return forEachEntry(d, func(start, ps, end int) error {
			return p.entryBody(t, d[ps:end])
		})
	case reflect.Slice:
		et := t.Elem()
		if et.Kind() == reflect.Interface || et.Kind() == reflect.Uint8 || isPackedElem(et) {
			return nil
		}
		if wt == WTLength {
			return p.value(et, WTLength, d)
		}
		return forEachEntry(d, func(start, ps, end int) error {
			return p.value(et, WTLength, d[ps:end])
		})
	}
	return nil
}

func (p *permuter) entryBody(mt reflect.Type, d []byte) error {
	p.inEntry = true
	return p.structBody(entryLookup(mt), d)
}

func (p *permuter) structBody(lk lookup, d []byte) error {
	isEntry := p.inEntry
	p.inEntry = false
	var segs []seg
	off := 0
	for off < len(d) {
		start := off
		tag, n, err := uvarint(d[off:])
		if err != nil {
			return err
		}
		off += n
		wt, idx := int(tag&7), int(tag>>3)
		ft, known := lk(idx)
		switch wt {
		case WTVarInt:
			_, n, err := uvarint(d[off:])
			if err != nil {
				return err
			}
			off += n
		case WT64:
			if len(d)-off < 8 {
				return errWire
			}
			off += 8
		case WT32:
			if len(d)-off < 4 {
				return errWire
			}
			off += 4
		case WTLength:
			l, n, err := uvarint(d[off:])
			if err != nil {
				return err
			}
			off += n
			if l > uint64(len(d)-off) {
				return errWire
			}
			if known {
				if err := p.value(ft, WTLength, d[off:off+int(l)]); err != nil {
					return err
				}
			}
			off += int(l)
		case WTSlice:
			ext, err := sliceExtent(d[off:])
			if err != nil {
				return err
			}
			if known {
				if err := p.value(ft, WTSlice, d[off:off+ext]); err != nil {
					return err
				}
			}
			off += ext
		default:
			return errWire
		}
		segs = append(segs, seg{start, off})
	}
	if len(segs) < 2 || p.next(2) == 0 || (isEntry && !p.entries) {
		return nil
	}
	blobs := make([][]byte, len(segs))
	for i, s := range segs {
		blobs[i] = append([]byte(nil), d[s.a:s.b]...)
	}
	for i := len(blobs) - 1; i > 0; i-- {
		j := p.next(i + 1)
		if i != j {
			blobs[i], blobs[j] = blobs[j], blobs[i]
			p.changed = true
		}
	}
	o := 0
	for _, b := range blobs {
		copy(d[o:], b)
		o += len(b)
	}
	return nil
}
