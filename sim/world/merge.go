package world

import (
	"reflect"
	"strings"
	"time"

	"github.com/unravelin/null"
)

// The merge family: types on which the executable form of C10's merge rules is
// applied. Map values are scalars, strings or pointers to scalars only, because
// the statement says "merged by key" and whole-value overwrite is the only
// reading of that for such values.

type MInner struct {
	A int    `plenc:"1"`
	S string `plenc:"2"`
	B []byte `plenc:"3"`
	P *int   `plenc:"4"`
}

type MTarget struct {
	I     int                `plenc:"1"`
	S     string             `plenc:"2"`
	F     float64            `plenc:"3"`
	Bo    bool               `plenc:"4"`
	Bs    []byte             `plenc:"5"`
	T     time.Time          `plenc:"6"`
	P     *int               `plenc:"7"`
	PS    *MInner            `plenc:"8"`
	In    MInner             `plenc:"9"`
	Is    []int              `plenc:"10"`
	Ss    []string           `plenc:"11"`
	Ins   []MInner           `plenc:"12"`
	PIns  []*MInner          `plenc:"13"`
	Fs    []float64          `plenc:"14"`
	PrIns []MInner           `plenc:"15,proto"`
	M     map[string]int     `plenc:"16"`
	MS    map[string]string  `plenc:"17"`
	MK    map[KeyS]int       `plenc:"18"`
	MP    map[string]*int    `plenc:"19"`
	NI    null.Int           `plenc:"20"`
	NS    null.String        `plenc:"21"`
	U8s   []uint8            `plenc:"22"`
	Bss   [][]byte           `plenc:"23"`
	PSl   *[]int             `plenc:"24"`
	PIs   []*int             `plenc:"25"`
	Bo2   []bool             `plenc:"26"`
	NSi   null.String        `plenc:"27,intern"`
	Si    string             `plenc:"28,intern"`
	NT    null.Time          `plenc:"29"`
	NB    null.Bool          `plenc:"30"`
	NF    null.Float         `plenc:"31"`
	Ts    []time.Time        `plenc:"32"`
	PB    *bool              `plenc:"33"`
	PF    *float64           `plenc:"34"`
	PStr  *string            `plenc:"35"`
	PT    *time.Time         `plenc:"36"`
	PBs   []*bool            `plenc:"37"`
	MPB   map[string]*bool   `plenc:"38"`
	PU8   *uint8             `plenc:"39"`
	PF32  *float32           `plenc:"40"`
	PByt  *[]byte            `plenc:"41"`
	MSt   map[string]MInner  `plenc:"42"`
	MPS   map[string]*MInner `plenc:"43"`
	JO    map[string]any     `plenc:"44"`
	JA    []any              `plenc:"45"`
}

// MNamed: a named type of every basic kind, each followed in memory by a small
// plain field (a codec that reads or writes the wrong width for a named kind
// touches its neighbour).
type (
	NU8   uint8
	NU16  uint16
	NU32  uint32
	NU64  uint64
	NI8   int8
	NI16  int16
	NI32  int32
	NI64  int64
	NBool bool
	NF32  float32
	NF64  float64
	NUint uint
)

type MNamed struct {
	A   NU8             `plenc:"1"`
	a   uint8           //nolint
	B   NU16            `plenc:"2"`
	Bn  uint16          `plenc:"3"`
	C   NU32            `plenc:"4"`
	Cn  uint32          `plenc:"5"`
	D   NI8             `plenc:"6"`
	Dn  int8            `plenc:"7"`
	E   NI16            `plenc:"8"`
	En  int16           `plenc:"9"`
	F   NI32            `plenc:"10"`
	Fn  int32           `plenc:"11"`
	G   NBool           `plenc:"12"`
	Gn  bool            `plenc:"13"`
	H   NF32            `plenc:"14"`
	Hn  float32         `plenc:"15"`
	I   NU64            `plenc:"16"`
	J   NI64            `plenc:"17"`
	K   NF64            `plenc:"18"`
	L   NUint           `plenc:"19"`
	An  uint8           `plenc:"20"`
	Ps  *NU16           `plenc:"21"`
	Sl  []NU16          `plenc:"22"`
	Mp  map[string]NU16 `plenc:"23"`
	S8  []int8          `plenc:"24"`
	SB  []bool          `plenc:"25"`
	SN8 []NI8           `plenc:"26"`
	SU8 []NU8           `plenc:"27"`
	S16 []int16         `plenc:"28"`
}

func init() {
	reg("MNamed", "FM", MNamed{})
	reg("MTarget", "FM", MTarget{})
	reg("MInner", "FM", MInner{})
}

// Present reports whether plenc encodes the value at all (explicit presence
// rules: zero scalars, empty strings / slices, nil pointers / maps, zero times
// and invalid null values are omitted; structs are always present).
func Present(v reflect.Value) bool {
	t := v.Type()
	if t == tTime {
		return !v.Interface().(time.Time).IsZero()
	}
	if isNullType(t) {
		return v.Field(0).FieldByName("Valid").Bool()
	}
	switch t.Kind() {
	case reflect.Bool:
		return v.Bool()
	case reflect.Int, reflect.Int8, reflect.Int16, reflect.Int32, reflect.Int64:
		return v.Int() != 0
	case reflect.Uint, reflect.Uint8, reflect.Uint16, reflect.Uint32, reflect.Uint64:
		return v.Uint() != 0
	case reflect.Float32, reflect.Float64:
		return v.Float() != 0
	case reflect.String:
		return v.Len() != 0
	case reflect.Slice:
		return v.Len() != 0
	case reflect.Ptr, reflect.Map:
		return !v.IsNil()
	case reflect.Struct:
		return true
	}
	return false
}

func isProtoField(sf reflect.StructField, cfg InstCfg) bool {
	tag := sf.Tag.Get("plenc")
	opt := ""
	if c := strings.IndexByte(tag, ','); c >= 0 {
		opt = tag[c+1:]
	}
	ft := sf.Type
	for ft.Kind() == reflect.Ptr {
		ft = ft.Elem() // a pointer to a slice uses the slice's codec
	}
	if ft.Kind() != reflect.Slice || ft.Elem().Kind() == reflect.Uint8 || isPackedElem(ft.Elem()) {
		return false
	}
	return opt == "proto" || cfg.ProtoArrays
}

// Merge applies C10's merge rules: dst is the prior content of the target,
// src the value whose encoding is decoded into it. Fields present in the data
// are overwritten (nested structs and non-nil pointers recursively), absent
// fields keep their prior value, a slice holds exactly the encoded elements
// (appended for the protobuf repeated form), map entries are merged by key.
//
// A value under a key the map already holds is a nested value like any other:
// when the data carries it, it is decoded into the stored value (a struct's
// absent fields keep their prior value, a non-nil pointer is followed); when
// the data omits it (a zero value), the entry becomes zero. JSON-any values
// (map[string]any, []any) have no fields: an entry of a map[string]any
// replaces the value under its key, a []any holds exactly the encoded
// elements. Their decoded form is taken from fresh, the decode of the same
// bytes into a new variable (numbers do not round-trip to the same Go type).
func Merge(dst, src, fresh reflect.Value, cfg InstCfg) {
	mergeValue(dst, src, cfg, false, 0)
	overlayJSON(dst, src, fresh, 0)
}

func isJSONAny(t reflect.Type) bool {
	return (t.Kind() == reflect.Map || t.Kind() == reflect.Slice) && t.Elem().Kind() == reflect.Interface
}

func overlayJSON(dst, src, fresh reflect.Value, depth int) {
	t := src.Type()
	if depth > 50 || t == tTime || isNullType(t) {
		return
	}
	switch t.Kind() {
	case reflect.Struct:
		for i := 0; i < t.NumField(); i++ {
			sf := t.Field(i)
			if sf.PkgPath != "" {
				continue
			}
			if tag := sf.Tag.Get("plenc"); tag == "" || tag == "-" {
				continue
			}
			if !Present(src.Field(i)) {
				continue
			}
			overlayJSON(dst.Field(i), src.Field(i), fresh.Field(i), depth+1)
		}
	case reflect.Ptr:
		if t.Elem().Kind() == reflect.Struct && !dst.IsNil() && !fresh.IsNil() {
			overlayJSON(dst.Elem(), src.Elem(), fresh.Elem(), depth+1)
		}
	case reflect.Map:
		if !isJSONAny(t) {
			return
		}
		if dst.IsNil() {
			dst.Set(reflect.MakeMap(t))
		}
		it := fresh.MapRange()
		for it.Next() {
			dst.SetMapIndex(Clone(it.Key()), Clone(it.Value()))
		}
	case reflect.Slice:
		if isJSONAny(t) {
			dst.Set(Clone(fresh))
		}
	}
}

func mergeValue(dst, src reflect.Value, cfg InstCfg, proto bool, depth int) {
	t := src.Type()
	if t == tTime || isNullType(t) {
		dst.Set(Clone(src))
		return
	}
	switch t.Kind() {
	case reflect.Struct:
		for i := 0; i < t.NumField(); i++ {
			sf := t.Field(i)
			if sf.PkgPath != "" {
				continue
			}
			if tag := sf.Tag.Get("plenc"); tag == "" || tag == "-" {
				continue
			}
			if !Present(src.Field(i)) {
				continue
			}
			mergeValue(dst.Field(i), src.Field(i), cfg, isProtoField(sf, cfg), depth+1)
		}
	case reflect.Ptr:
		if dst.IsNil() {
			dst.Set(reflect.New(t.Elem()))
		}
		mergeValue(dst.Elem(), src.Elem(), cfg, proto, depth+1)
	case reflect.Slice:
		if t.Elem().Kind() == reflect.Uint8 {
			dst.Set(Clone(src))
			return
		}
		if isJSONAny(t) {
			return // overlayJSON
		}
		n := src.Len()
		fresh := reflect.MakeSlice(t, n, n)
		for i := 0; i < n; i++ {
			freshElem(fresh.Index(i), src.Index(i), cfg, depth+1)
		}
		if proto {
			dst.Set(reflect.AppendSlice(Clone(dst), fresh))
		} else {
			dst.Set(fresh)
		}
	case reflect.Map:
		if dst.IsNil() {
			dst.Set(reflect.MakeMap(t))
		}
		if isJSONAny(t) {
			return // overlayJSON
		}
		it := src.MapRange()
		for it.Next() {
			k := Clone(it.Key())
			e := reflect.New(t.Elem()).Elem()
			if old := dst.MapIndex(it.Key()); old.IsValid() && Present(it.Value()) {
				// the value is decoded into the one already stored under the key
				e.Set(Clone(old))
				mergeValue(e, it.Value(), cfg, false, depth+1)
			} else {
				freshElem(e, it.Value(), cfg, depth+1)
			}
			dst.SetMapIndex(k, e)
		}
	default:
		dst.Set(Clone(src))
	}
}

// freshElem sets dst (zero) to what a decode of src's encoding into a zeroed
// element gives.
func freshElem(dst, src reflect.Value, cfg InstCfg, depth int) {
	if !Present(src) {
		return // stays zero
	}
	mergeValue(dst, src, cfg, false, depth)
}
