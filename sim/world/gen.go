package world

import (
	"encoding/json"
	"fmt"
	"math"
	"reflect"
	"strings"
	"time"

	"verifsim/engine"
)

var (
	tTime    = reflect.TypeOf(time.Time{})
	tBytes   = reflect.TypeOf([]byte(nil))
	tAny     = reflect.TypeOf((*interface{})(nil)).Elem()
	tJSONNum = reflect.TypeOf(json.Number(""))
)

// GenOpts steers the value generator.
type GenOpts struct {
	Size     int      // rough number of leaves / elements to produce
	Vocab    []string // if set, strings are drawn from here most of the time (collisions for interning)
	MaxDepth int
	ZeroPct  int  // probability (percent) that a struct field is left at zero
	NoMulti  bool // maps get at most one entry
	// NonCanonical also produces values that plenc normalises on the way
	// through (times outside UTC). Only for operations whose oracle does not
	// need the round trip to be the identity.
	NonCanonical bool
	// Fanout > 0: slices and maps met at depth <= 1 get exactly this many
	// elements (scale probes); deeper containers stay small.
	Fanout int
}

type gen struct {
	r      *engine.PRNG
	o      GenOpts
	budget int
	inFan  bool // inside a container that already got the Fanout size
}

// Gen produces a canonical value of type t (one that plenc's documented
// normalisations leave unchanged): no empty non-nil slices, times in UTC, no
// nil entries in pointer slices, no negative zero, no NaN.
func Gen(t reflect.Type, r *engine.PRNG, o GenOpts) reflect.Value {
	if o.MaxDepth == 0 {
		o.MaxDepth = 4
	}
	if o.ZeroPct == 0 {
		o.ZeroPct = 30
	}
	if o.Size == 0 {
		o.Size = 12
	}
	g := &gen{r: r, o: o, budget: o.Size}
	v := reflect.New(t).Elem()
	g.fill(v, 0, true)
	return v
}

var boundaryInts = []int64{0, 1, -1, 2, -2, 63, 64, -64, -65, 127, 128, -128, -129, 255, 256, 16383, 16384, -16384, 1 << 20, 1<<21 - 1, 1 << 31, -(1 << 31), 1<<31 - 1, 1<<35 + 7, 1<<49 - 1, 1 << 56, math.MaxInt64, math.MinInt64, 1<<63 - 2, 300, 1000000007}

func (g *gen) int64() int64 {
	switch g.r.Intn(4) {
	case 0:
		return boundaryInts[g.r.Intn(len(boundaryInts))]
	case 1:
		return int64(g.r.Intn(200)) - 100
	case 2:
		return int64(g.r.Next()) >> uint(g.r.Intn(64))
	default:
		return int64(g.r.Intn(100000))
	}
}

var stringPool = []string{"a", "b", "ab", "abc", "abcd", "abcdefgh", "key", "key1", "key2", "value", "x", "\x00", "\x00\x00", "\xff", "\xff\xfe", "héllo", "日本", "\x80\x81", "prefix-common-1", "prefix-common-2", "prefix-common-", strings.Repeat("z", 127), strings.Repeat("y", 128), strings.Repeat("long-", 40), "with\nnewline", "with\"quote", "tab\t", " "}

func (g *gen) str(allowEmpty bool) string {
	if len(g.o.Vocab) > 0 && g.r.Intn(10) < 8 {
		s := g.o.Vocab[g.r.Intn(len(g.o.Vocab))]
		if s != "" || allowEmpty {
			return s
		}
	}
	switch g.r.Intn(6) {
	case 0:
		if allowEmpty {
			return ""
		}
		return "e"
	case 1, 2:
		return stringPool[g.r.Intn(len(stringPool))]
	case 3:
		n := 1 + g.r.Intn(12)
		b := make([]byte, n)
		for i := range b {
			b[i] = byte(g.r.Next())
		}
		return string(b)
	default:
		return fmt.Sprintf("s%d", g.r.Intn(50))
	}
}

var boundaryFloats = []float64{1, -1, 0.5, 3.14, 1e-45, 5e-324, math.MaxFloat32, math.MaxFloat64, -math.MaxFloat64, 1e100, 123456.789, math.Inf(1), math.Inf(-1), 2.5, -0.25}

func (g *gen) float() float64 {
	if g.r.Intn(2) == 0 {
		return boundaryFloats[g.r.Intn(len(boundaryFloats))]
	}
	f := float64(int64(g.r.Next()>>11)) / float64(1+g.r.Intn(1000))
	if g.r.Intn(2) == 0 {
		f = -f
	}
	if f == 0 || f != f {
		return 7.25
	}
	return f
}

func (g *gen) time() time.Time {
	var sec int64
	switch g.r.Intn(5) {
	case 0:
		sec = int64(g.r.Intn(2000000000))
	case 1:
		sec = -int64(g.r.Intn(2000000000)) // pre-epoch
	case 2:
		sec = 1
	case 3:
		sec = 253402300799 // 9999-12-31
	default:
		sec = int64(g.r.Intn(1 << 30))
	}
	ns := int64(0)
	if g.r.Intn(3) != 0 {
		ns = int64(g.r.Intn(1000000000))
	}
	t := time.Unix(sec, ns).UTC()
	if t.IsZero() {
		t = time.Unix(5, 5).UTC()
	}
	if g.o.NonCanonical && g.r.Intn(2) == 0 {
		t = t.In(time.FixedZone("sim", 3600*(1+g.r.Intn(5))))
	}
	return t
}

func (g *gen) n(max int) int {
	// element count for a container, limited by the budget
	if g.budget <= 0 {
		return 0
	}
	n := 1 + g.r.Intn(max)
	if n > g.budget {
		n = g.budget
	}
	return n
}

// fill sets v to a generated value. nonzero asks for a value plenc would not
// omit where that is possible.
func (g *gen) fill(v reflect.Value, depth int, top bool) {
	g.budget--
	t := v.Type()
	switch {
	case t == tTime:
		v.Set(reflect.ValueOf(g.time()))
		return
	case t == tJSONNum:
		v.SetString(fmt.Sprint(g.int64()))
		return
	case t == tAny:
		x := g.any(depth)
		if x != nil {
			v.Set(reflect.ValueOf(x))
		}
		return
	}
	switch t.Kind() {
	case reflect.Bool:
		v.SetBool(g.r.Intn(2) == 0)
	case reflect.Int, reflect.Int8, reflect.Int16, reflect.Int32, reflect.Int64:
		x := g.int64()
		bits := uint(t.Bits())
		x = x << (64 - bits) >> (64 - bits)
		v.SetInt(x)
	case reflect.Uint, reflect.Uint8, reflect.Uint16, reflect.Uint32, reflect.Uint64:
		x := uint64(g.int64())
		if g.r.Intn(2) == 0 {
			x = uint64(g.r.Intn(300))
		}
		bits := uint(t.Bits())
		x = x << (64 - bits) >> (64 - bits)
		v.SetUint(x)
	case reflect.Float32:
		f := float32(g.float())
		if f == 0 || f != f {
			f = 1.5
		}
		v.SetFloat(float64(f))
	case reflect.Float64:
		v.SetFloat(g.float())
	case reflect.String:
		v.SetString(g.str(true))
	case reflect.Ptr:
		if depth >= g.o.MaxDepth || g.budget <= 0 {
			return
		}
		p := reflect.New(t.Elem())
		g.fill(p.Elem(), depth+1, false)
		v.Set(p)
	case reflect.Struct:
		if isNullType(t) {
			// canonical: invalid => zero
			if g.r.Intn(3) == 0 {
				return
			}
			inner := v.Field(0)
			for i := 0; i < inner.NumField(); i++ {
				f := inner.Field(i)
				if inner.Type().Field(i).Name == "Valid" {
					f.SetBool(true)
				} else {
					g.fill(f, depth+1, false)
				}
			}
			return
		}
		for i := 0; i < t.NumField(); i++ {
			sf := t.Field(i)
			if sf.PkgPath != "" {
				continue
			}
			if tag := sf.Tag.Get("plenc"); tag == "-" || tag == "" {
				continue
			}
			if g.r.Intn(100) < g.o.ZeroPct {
				continue
			}
			if k := sf.Type.Kind(); (k == reflect.Chan) || (k == reflect.Func) {
				continue
			}
			g.fill(v.Field(i), depth+1, false)
		}
	case reflect.Slice:
		if t.Elem().Kind() == reflect.Uint8 {
			n := g.r.Intn(9)
			if g.r.Intn(8) == 0 {
				n = 120 + g.r.Intn(20)
			}
			if n == 0 {
				return
			}
			b := reflect.MakeSlice(t, n, n)
			for i := 0; i < n; i++ {
				b.Index(i).SetUint(uint64(byte(g.r.Next())))
			}
			v.Set(b)
			return
		}
		if depth >= g.o.MaxDepth+1 {
			return
		}
		n := g.n(4)
		if g.o.Fanout > 0 && depth <= 1 && !g.inFan {
			n = g.o.Fanout
			g.budget = 1 << 30
			g.inFan = true
			defer func() { g.inFan = false }()
		}
		if n == 0 {
			return
		}
		s := reflect.MakeSlice(t, n, n)
		if g.o.NonCanonical && t.Elem().Kind() == reflect.Ptr && g.r.Intn(4) == 0 {
			v.Set(s) // every entry nil: present on the wire, no (or zero-valued) elements
			return
		}
		for i := 0; i < n; i++ {
			e := s.Index(i)
			if t.Elem().Kind() == reflect.Ptr {
				p := reflect.New(t.Elem().Elem())
				g.fill(p.Elem(), depth+1, false)
				e.Set(p)
			} else {
				g.fill(e, depth+1, false)
			}
		}
		v.Set(s)
	case reflect.Map:
		if depth >= g.o.MaxDepth+1 {
			return
		}
		n := g.n(3)
		if g.o.NoMulti && n > 1 {
			n = 1
		}
		fan := false
		if g.o.Fanout > 0 && depth <= 1 && !g.inFan {
			n = g.o.Fanout
			g.budget = 1 << 30
			g.inFan, fan = true, true
			defer func() { g.inFan = false }()
		}
		if n == 0 && g.r.Intn(2) == 0 {
			return // nil map
		}
		m := reflect.MakeMapWithSize(t, n)
		for i := 0; i < n; i++ {
			k := reflect.New(t.Key()).Elem()
			// one map in four has an entry under the zero key (omitted on the wire)
			if !(i == 0 && !fan && g.r.Intn(4) == 0) {
				g.fill(k, depth+1, false)
			}
			if fan {
				uniqueKey(k, i)
			}
			e := reflect.New(t.Elem()).Elem()
			if t.Elem().Kind() == reflect.Ptr {
				if g.r.Intn(4) != 0 {
					p := reflect.New(t.Elem().Elem())
					g.fill(p.Elem(), depth+1, false)
					e.Set(p)
				}
			} else {
				g.fill(e, depth+1, false)
			}
			m.SetMapIndex(k, e)
		}
		v.Set(m)
	case reflect.Interface, reflect.Chan, reflect.Func:
		// left nil
	default:
		panic("gen: unsupported kind " + t.Kind().String())
	}
}

func (g *gen) any(depth int) interface{} {
	k := g.r.Intn(12)
	switch k {
	case 9, 10:
		k = 5 // nested arrays and objects are where the JSON codecs' code is
	case 11:
		k = 6
	}
	if depth >= g.o.MaxDepth && k >= 5 && k <= 6 {
		k = 1
	}
	switch k {
	case 0:
		return nil
	case 1:
		return g.str(true)
	case 2:
		return int(g.int64())
	case 3:
		return g.float()
	case 4:
		return g.r.Intn(2) == 0
	case 5:
		n := g.n(3)
		a := make([]interface{}, n)
		for i := range a {
			a[i] = g.any(depth + 1)
		}
		return a
	case 6:
		n := g.n(3)
		m := make(map[string]interface{}, n)
		for i := 0; i < n; i++ {
			m[g.str(true)] = g.any(depth + 1)
		}
		return m
	case 7:
		return json.Number(fmt.Sprint(g.int64()))
	default:
		return g.str(false)
	}
}

func isNullType(t reflect.Type) bool {
	return t.PkgPath() == "github.com/unravelin/null" && t.Kind() == reflect.Struct && t.NumField() == 1
}

// uniqueKey makes the i-th generated map key distinct from the others.
func uniqueKey(k reflect.Value, i int) {
	switch k.Kind() {
	case reflect.String:
		k.SetString(fmt.Sprintf("k%d", i))
	case reflect.Int, reflect.Int8, reflect.Int16, reflect.Int32, reflect.Int64:
		k.SetInt(int64(i))
	case reflect.Uint, reflect.Uint8, reflect.Uint16, reflect.Uint32, reflect.Uint64:
		k.SetUint(uint64(i))
	case reflect.Float32, reflect.Float64:
		k.SetFloat(float64(i) + 0.5)
	case reflect.Struct:
		for j := 0; j < k.NumField(); j++ {
			if f := k.Field(j); f.CanSet() && (f.Kind() == reflect.Int || f.Kind() == reflect.String) {
				uniqueKey(f, i)
				return
			}
		}
	}
}

// Chain builds a value of a self-referential struct type nested n levels deep
// through its first pointer-to-self field (a linked list of n nodes), each
// level with a little scalar content. ok=false if t has no such field.
func Chain(t reflect.Type, r *engine.PRNG, n int) (reflect.Value, bool) {
	if t.Kind() != reflect.Struct {
		return reflect.Value{}, false
	}
	fi := -1
	viaMap := false
	for i := 0; i < t.NumField(); i++ {
		ft := t.Field(i).Type
		if ft.Kind() == reflect.Ptr && ft.Elem() == t && t.Field(i).PkgPath == "" {
			fi = i
			break
		}
	}
	if fi < 0 {
		// or through a map value: map[string]T
		for i := 0; i < t.NumField(); i++ {
			ft := t.Field(i).Type
			if ft.Kind() == reflect.Map && ft.Key().Kind() == reflect.String && ft.Elem() == t && t.Field(i).PkgPath == "" {
				fi, viaMap = i, true
				break
			}
		}
	}
	if fi < 0 {
		return reflect.Value{}, false
	}
	if viaMap {
		// built from the innermost level outwards: a map value cannot be modified in place
		var cur reflect.Value
		for lvl := n - 1; lvl >= 0; lvl-- {
			node := reflect.New(t).Elem()
			g := &gen{r: r, o: GenOpts{Size: 3, MaxDepth: 1, ZeroPct: 40}, budget: 3}
			for i := 0; i < t.NumField(); i++ {
				k := t.Field(i).Type.Kind()
				if i != fi && t.Field(i).PkgPath == "" && (k == reflect.Int || k == reflect.String) {
					g.budget = 2
					g.fill(node.Field(i), 2, false)
				}
			}
			if cur.IsValid() {
				m := reflect.MakeMap(t.Field(fi).Type)
				m.SetMapIndex(reflect.ValueOf("k"), cur)
				node.Field(fi).Set(m)
			}
			cur = node
		}
		return cur, true
	}
	root := reflect.New(t).Elem()
	cur := root
	for lvl := 0; lvl < n; lvl++ {
		g := &gen{r: r, o: GenOpts{Size: 3, MaxDepth: 1, ZeroPct: 40}, budget: 3}
		for i := 0; i < t.NumField(); i++ {
			k := t.Field(i).Type.Kind()
			if i != fi && t.Field(i).PkgPath == "" && (k == reflect.Int || k == reflect.String) {
				g.budget = 2
				g.fill(cur.Field(i), 2, false)
			}
		}
		if lvl == n-1 {
			break
		}
		next := reflect.New(t)
		cur.Field(fi).Set(next)
		cur = next.Elem()
	}
	return root, true
}
