package world

import (
	"fmt"
	"reflect"
	"strings"
)

// DiffInterned walks a value of a type with interned fields and a value of its
// twin type (same shape, no intern option) in parallel and reports the first
// INTERNED field (string or null.String tagged intern) whose content differs.
// Everything else is ignored: what other fields hold is other properties'
// business. Containers are followed as far as both sides have them.
func DiffInterned(a, b reflect.Value) (bool, string) {
	return diffInterned(a, b, "", 0)
}

func diffInterned(a, b reflect.Value, path string, depth int) (bool, string) {
	if depth > 60 || !a.IsValid() || !b.IsValid() {
		return true, ""
	}
	t := a.Type()
	if t == tTime {
		return true, ""
	}
	switch t.Kind() {
	case reflect.Ptr:
		if b.Kind() != reflect.Ptr || a.IsNil() || b.IsNil() {
			return true, ""
		}
		return diffInterned(a.Elem(), b.Elem(), path+"*", depth+1)
	case reflect.Struct:
		if isNullType(t) || b.Kind() != reflect.Struct {
			return true, ""
		}
		for i := 0; i < t.NumField(); i++ {
			sf := t.Field(i)
			if sf.PkgPath != "" {
				continue
			}
			bf := b.FieldByName(sf.Name)
			if !bf.IsValid() {
				continue
			}
			af := a.Field(i)
			if strings.HasSuffix(sf.Tag.Get("plenc"), ",intern") {
				if d := Dump(af); d != Dump(bf) {
					return false, fmt.Sprintf("%s.%s: with interning %s, without %s", path, sf.Name, trunc(d), trunc(Dump(bf)))
				}
				continue
			}
			if ok, p := diffInterned(af, bf, path+"."+sf.Name, depth+1); !ok {
				return false, p
			}
		}
	case reflect.Slice:
		if t.Elem().Kind() == reflect.Uint8 || b.Kind() != reflect.Slice {
			return true, ""
		}
		n := a.Len()
		if b.Len() < n {
			n = b.Len()
		}
		for i := 0; i < n; i++ {
			if ok, p := diffInterned(a.Index(i), b.Index(i), fmt.Sprintf("%s[%d]", path, i), depth+1); !ok {
				return false, p
			}
		}
	case reflect.Map:
		if b.Kind() != reflect.Map || a.Type().Key() != b.Type().Key() {
			return true, ""
		}
		for _, k := range sortedKeys(a) {
			bv := b.MapIndex(k)
			if !bv.IsValid() {
				continue
			}
			if ok, p := diffInterned(a.MapIndex(k), bv, fmt.Sprintf("%s[%s]", path, trunc(Dump(k))), depth+1); !ok {
				return false, p
			}
		}
	}
	return true, ""
}
