package world

import (
	"fmt"
	"math"
	"reflect"
	"time"
	"unsafe"
)

// Equal is the simulator's own deep comparison: floats bit-exact, time.Time by
// instant and location name, strings and bytes by content, maps as sets of
// entries, pointer identity ignored, nil and empty slices / maps equal. It
// returns the path of the first difference.
func Equal(a, b reflect.Value) (bool, string) {
	return eq(a, b, "", 0)
}

// EqualI compares two interface values (typically pointers to values).
func EqualI(a, b interface{}) (bool, string) {
	return Equal(reflect.ValueOf(a), reflect.ValueOf(b))
}

func eq(a, b reflect.Value, path string, depth int) (bool, string) {
	if depth > 200 {
		return false, path + ": too deep"
	}
	if a.IsValid() != b.IsValid() {
		return false, path + ": validity"
	}
	if !a.IsValid() {
		return true, ""
	}
	if a.Type() != b.Type() {
		return false, fmt.Sprintf("%s: type %s vs %s", path, a.Type(), b.Type())
	}
	t := a.Type()
	if t == tTime {
		ta := a.Interface().(time.Time)
		tb := b.Interface().(time.Time)
		if !ta.Equal(tb) || ta.Location().String() != tb.Location().String() {
			return false, fmt.Sprintf("%s: time %v vs %v", path, ta, tb)
		}
		return true, ""
	}
	switch t.Kind() {
	case reflect.Bool:
		if a.Bool() != b.Bool() {
			return false, fmt.Sprintf("%s: %v vs %v", path, a.Bool(), b.Bool())
		}
	case reflect.Int, reflect.Int8, reflect.Int16, reflect.Int32, reflect.Int64:
		if a.Int() != b.Int() {
			return false, fmt.Sprintf("%s: %d vs %d", path, a.Int(), b.Int())
		}
	case reflect.Uint, reflect.Uint8, reflect.Uint16, reflect.Uint32, reflect.Uint64, reflect.Uintptr:
		if a.Uint() != b.Uint() {
			return false, fmt.Sprintf("%s: %d vs %d", path, a.Uint(), b.Uint())
		}
	case reflect.Float32, reflect.Float64:
		if math.Float64bits(a.Float()) != math.Float64bits(b.Float()) {
			return false, fmt.Sprintf("%s: %v vs %v", path, a.Float(), b.Float())
		}
	case reflect.String:
		if a.String() != b.String() {
			return false, fmt.Sprintf("%s: %q vs %q", path, trunc(a.String()), trunc(b.String()))
		}
	case reflect.Ptr:
		if a.IsNil() != b.IsNil() {
			return false, fmt.Sprintf("%s: nil %v vs %v", path, a.IsNil(), b.IsNil())
		}
		if a.IsNil() {
			return true, ""
		}
		return eq(a.Elem(), b.Elem(), path+"*", depth+1)
	case reflect.Interface:
		if a.IsNil() != b.IsNil() {
			return false, fmt.Sprintf("%s: nil-iface %v vs %v", path, a.IsNil(), b.IsNil())
		}
		if a.IsNil() {
			return true, ""
		}
		return eq(a.Elem(), b.Elem(), path, depth+1)
	case reflect.Struct:
		for i := 0; i < t.NumField(); i++ {
			fa, fb := a.Field(i), b.Field(i)
			if t.Field(i).PkgPath != "" {
				// unexported: compare through unsafe only for basic kinds; skip otherwise
				continue
			}
			if ok, p := eq(fa, fb, path+"."+t.Field(i).Name, depth+1); !ok {
				return false, p
			}
		}
	case reflect.Slice:
		if a.Len() != b.Len() {
			return false, fmt.Sprintf("%s: len %d vs %d", path, a.Len(), b.Len())
		}
		if t.Elem().Kind() == reflect.Uint8 {
			ba, bb := a.Bytes(), b.Bytes()
			if string(ba) != string(bb) {
				return false, fmt.Sprintf("%s: bytes %x vs %x", path, truncB(ba), truncB(bb))
			}
			return true, ""
		}
		for i := 0; i < a.Len(); i++ {
			if ok, p := eq(a.Index(i), b.Index(i), fmt.Sprintf("%s[%d]", path, i), depth+1); !ok {
				return false, p
			}
		}
	case reflect.Array:
		for i := 0; i < a.Len(); i++ {
			if ok, p := eq(a.Index(i), b.Index(i), fmt.Sprintf("%s[%d]", path, i), depth+1); !ok {
				return false, p
			}
		}
	case reflect.Map:
		if a.Len() != b.Len() {
			return false, fmt.Sprintf("%s: maplen %d vs %d", path, a.Len(), b.Len())
		}
		it := a.MapRange()
		used := map[int]bool{}
		var bkeys []reflect.Value
		for it.Next() {
			bv := b.MapIndex(it.Key())
			if !bv.IsValid() {
				// a key that is not equal to itself (NaN inside it): match it bit
				// for bit against the other map's keys, each used once
				if bkeys == nil {
					bkeys = b.MapKeys()
				}
				found := false
				for i, bk := range bkeys {
					if used[i] {
						continue
					}
					if ok, _ := eq(it.Key(), bk, path, depth+1); !ok {
						continue
					}
					if bk.Interface() == bk.Interface() {
						continue // an ordinary key: MapIndex would have found it
					}
					// values of NaN-keyed entries cannot be looked up; compare via iteration
					bit := b.MapRange()
					for bit.Next() {
						if okk, _ := eq(bit.Key(), bk, path, depth+1); okk && bit.Key().Interface() != bit.Key().Interface() {
							if okv, _ := eq(it.Value(), bit.Value(), path, depth+1); okv {
								found = true
								break
							}
						}
					}
					if found {
						used[i] = true
						break
					}
				}
				if found {
					continue
				}
				return false, fmt.Sprintf("%s: key %v missing", path, trunc(fmt.Sprint(it.Key())))
			}
			if ok, p := eq(it.Value(), bv, fmt.Sprintf("%s[%v]", path, trunc(fmt.Sprint(it.Key()))), depth+1); !ok {
				return false, p
			}
		}
	case reflect.Chan, reflect.Func, reflect.UnsafePointer:
		// ignored
	default:
		return false, path + ": unsupported kind " + t.Kind().String()
	}
	return true, ""
}

func trunc(s string) string {
	if len(s) > 40 {
		return s[:40] + "..."
	}
	return s
}

func truncB(b []byte) []byte {
	if len(b) > 24 {
		return b[:24]
	}
	return b
}

// Clone makes a deep copy of v that shares no memory with it: strings and byte
// slices are copied into fresh allocations, slices are exactly sized.
func Clone(v reflect.Value) reflect.Value {
	out := reflect.New(v.Type()).Elem()
	clone(out, v, 0)
	return out
}

// CloneI clones the value an interface pointer points to and returns a new
// pointer.
func CloneI(p interface{}) interface{} {
	v := reflect.ValueOf(p)
	if v.Kind() != reflect.Ptr {
		panic("CloneI wants a pointer")
	}
	out := reflect.New(v.Type().Elem())
	clone(out.Elem(), v.Elem(), 0)
	return out.Interface()
}

func freshString(s string) string {
	if len(s) == 0 {
		return ""
	}
	b := make([]byte, len(s))
	copy(b, s)
	return *(*string)(unsafe.Pointer(&b))
}

func clone(dst, src reflect.Value, depth int) {
	if depth > 200 {
		panic("clone: too deep")
	}
	t := src.Type()
	if t == tTime {
		dst.Set(src)
		return
	}
	switch t.Kind() {
	case reflect.String:
		dst.SetString(freshString(src.String()))
	case reflect.Ptr:
		if src.IsNil() {
			return
		}
		p := reflect.New(t.Elem())
		clone(p.Elem(), src.Elem(), depth+1)
		dst.Set(p)
	case reflect.Interface:
		if src.IsNil() {
			return
		}
		e := src.Elem()
		c := reflect.New(e.Type()).Elem()
		clone(c, e, depth+1)
		dst.Set(c)
	case reflect.Struct:
		for i := 0; i < t.NumField(); i++ {
			if t.Field(i).PkgPath != "" {
				continue
			}
			clone(dst.Field(i), src.Field(i), depth+1)
		}
	case reflect.Slice:
		if src.IsNil() {
			return
		}
		n := src.Len()
		s := reflect.MakeSlice(t, n, n)
		if t.Elem().Kind() == reflect.Uint8 {
			reflect.Copy(s, src)
		} else {
			for i := 0; i < n; i++ {
				clone(s.Index(i), src.Index(i), depth+1)
			}
		}
		dst.Set(s)
	case reflect.Array:
		for i := 0; i < src.Len(); i++ {
			clone(dst.Index(i), src.Index(i), depth+1)
		}
	case reflect.Map:
		if src.IsNil() {
			return
		}
		m := reflect.MakeMapWithSize(t, src.Len())
		it := src.MapRange()
		for it.Next() {
			k := reflect.New(t.Key()).Elem()
			clone(k, it.Key(), depth+1)
			e := reflect.New(t.Elem()).Elem()
			clone(e, it.Value(), depth+1)
			m.SetMapIndex(k, e)
		}
		dst.Set(m)
	case reflect.Chan, reflect.Func, reflect.UnsafePointer:
	default:
		dst.Set(src)
	}
}

// Render gives a short printable form of a value for logs and replay files.
func Render(v interface{}) string {
	s := fmt.Sprintf("%+v", v)
	if len(s) > 300 {
		s = s[:300] + "..."
	}
	return s
}
