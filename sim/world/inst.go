package world

import (
	"fmt"
	"reflect"

	"github.com/philpearl/plenc"
	pnull "github.com/philpearl/plenc/null"
	"github.com/philpearl/plenc/plenccodec"
)

// InstCfg is the configuration of one simulated plenc instance.
type InstCfg struct {
	ProtoTime   bool `json:"proto_time,omitempty"`
	ProtoArrays bool `json:"proto_arrays,omitempty"`
	Default     bool `json:"default,omitempty"` // the package-level default instance (reset first)
}

func (c InstCfg) String() string {
	return fmt.Sprintf("{pt=%v pa=%v def=%v}", c.ProtoTime, c.ProtoArrays, c.Default)
}

// API is the surface of plenc that the simulated callers use.
type API interface {
	Marshal(data []byte, value interface{}) ([]byte, error)
	Unmarshal(data []byte, value interface{}) error
	CodecForType(typ reflect.Type) (plenccodec.Codec, error)
	CodecForTypeRegistry(registry plenccodec.CodecRegistry, typ reflect.Type, tag string) (plenccodec.Codec, error)
}

type instAPI struct{ p *plenc.Plenc }

func (a instAPI) Marshal(d []byte, v interface{}) ([]byte, error) { return a.p.Marshal(d, v) }
func (a instAPI) Unmarshal(d []byte, v interface{}) error         { return a.p.Unmarshal(d, v) }
func (a instAPI) CodecForType(t reflect.Type) (plenccodec.Codec, error) {
	return a.p.CodecForType(t)
}
func (a instAPI) CodecForTypeRegistry(r plenccodec.CodecRegistry, t reflect.Type, tag string) (plenccodec.Codec, error) {
	return a.p.CodecForTypeRegistry(r, t, tag)
}

type defaultAPI struct{ helper *plenc.Plenc }

func (defaultAPI) Marshal(d []byte, v interface{}) ([]byte, error) { return plenc.Marshal(d, v) }
func (defaultAPI) Unmarshal(d []byte, v interface{}) error         { return plenc.Unmarshal(d, v) }
func (defaultAPI) CodecForType(t reflect.Type) (plenccodec.Codec, error) {
	return plenc.CodecForType(t)
}
func (a defaultAPI) CodecForTypeRegistry(r plenccodec.CodecRegistry, t reflect.Type, tag string) (plenccodec.Codec, error) {
	// the package-level API has no such entry point; builder options do not
	// matter when every lookup goes through r
	return a.helper.CodecForTypeRegistry(r, t, tag)
}

var (
	tJSONMap = reflect.TypeOf(map[string]interface{}(nil))
	tJSONArr = reflect.TypeOf([]interface{}(nil))
)

// NewInstance builds a fresh, fully configured instance. Every instance has the
// default codecs, the null codecs and the JSON-any codecs.
func NewInstance(cfg InstCfg) API {
	if cfg.Default {
		plenc.VerifResetDefault()
		pnull.RegisterCodecs()
		plenc.RegisterCodec(tJSONMap, plenccodec.JSONMapCodec{})
		plenc.RegisterCodec(tJSONArr, plenccodec.JSONArrayCodec{})
		h := &plenc.Plenc{}
		h.RegisterDefaultCodecs()
		return defaultAPI{helper: h}
	}
	p := &plenc.Plenc{ProtoCompatibleTime: cfg.ProtoTime, ProtoCompatibleArrays: cfg.ProtoArrays}
	p.RegisterDefaultCodecs()
	pnull.AddCodecs(p)
	p.RegisterCodec(tJSONMap, plenccodec.JSONMapCodec{})
	p.RegisterCodec(tJSONArr, plenccodec.JSONArrayCodec{})
	return instAPI{p}
}

// Configs are the non-default configurations.
var Configs = []InstCfg{
	{},
	{ProtoTime: true},
	{ProtoArrays: true},
	{ProtoTime: true, ProtoArrays: true},
}
