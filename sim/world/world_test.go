package world

import (
	"bytes"
	"reflect"
	"testing"

	"verifsim/engine"
)

// The generator, Canon, Equal and Clone against the real plenc, single threaded.
func TestCanonStable(t *testing.T) {
	for _, cfg := range Configs {
		for _, ti := range TypeList {
			if !TopOK(ti, cfg) {
				continue
			}
			for seed := uint64(1); seed <= 60; seed++ {
				r := engine.PRNG{S: engine.Mix(seed, 77)}
				v := Gen(ti.T, &r, GenOpts{Size: 5 + int(seed%30)})
				p := NewInstance(cfg)
				ptr := v.Addr().Interface()
				var first []byte
				for rep := 0; rep < 6; rep++ {
					data, err := p.Marshal(nil, ptr)
					if err != nil {
						t.Fatalf("%s: %v", ti.Name, err)
					}
					c, err := Canon(ti.T, data)
					if err != nil {
						t.Fatalf("%s seed %d: canon: %v (%x)", ti.Name, seed, err, data)
					}
					if rep == 0 {
						first = c
					} else if !bytes.Equal(first, c) {
						t.Fatalf("%s seed %d: canon not stable", ti.Name, seed)
					}
					out := reflect.New(ti.T)
					if err := p.Unmarshal(c, out.Interface()); err != nil {
						t.Fatalf("%s seed %d: unmarshal canon: %v", ti.Name, seed, err)
					}
					out2 := reflect.New(ti.T)
					if err := p.Unmarshal(data, out2.Interface()); err != nil {
						t.Fatalf("%s seed %d: unmarshal: %v", ti.Name, seed, err)
					}
					if ok, path := Equal(out.Elem(), out2.Elem()); !ok && !skipOrderSensitive[ti.Name] {
						t.Fatalf("%s seed %d cfg %v: canon changes meaning at %s", ti.Name, seed, cfg, path)
					}
					cl := Clone(out.Elem())
					if ok, path := Equal(out.Elem(), cl); !ok {
						t.Fatalf("%s: clone differs at %s", ti.Name, path)
					}
				}
			}
		}
	}
}

// skipOrderSensitive lists types whose decode depends on map entry order on
// trees that still have the struct-key scratch defect (C10). Empty once fixed.
var skipOrderSensitive = map[string]bool{"Maps": true, "MapKS": true, "MapKV": true}

func TestRoundTripReport(t *testing.T) {
	// informational: how often is the round trip not the identity on canonical values?
	bad := map[string]int{}
	for _, ti := range TypeList {
		if ti.Bad || !ti.Top {
			continue
		}
		for seed := uint64(1); seed <= 200; seed++ {
			r := engine.PRNG{S: engine.Mix(seed, 5)}
			v := Gen(ti.T, &r, GenOpts{Size: 5 + int(seed%30)})
			p := NewInstance(InstCfg{})
			data, err := p.Marshal(nil, v.Addr().Interface())
			if err != nil {
				t.Fatal(err)
			}
			out := reflect.New(ti.T)
			if err := p.Unmarshal(data, out.Interface()); err != nil {
				bad[ti.Name+": "+err.Error()]++
				continue
			}
			if ok, path := Equal(v, out.Elem()); !ok {
				bad[ti.Name+" "+path]++
			}
		}
	}
	for k, n := range bad {
		t.Logf("%4d  %s", n, k)
	}
}

// A record with permuted field order must still be a well-formed record: the
// real decoder accepts it, under every configuration.
func TestPermuteFieldsWellFormed(t *testing.T) {
	for _, cfg := range Configs {
		for _, ti := range TypeList {
			if ti.Bad || !ti.Top || !ShapeOK(ti, cfg) {
				continue
			}
			for seed := uint64(1); seed <= 120; seed++ {
				r := engine.PRNG{S: engine.Mix(seed, 9)}
				v := Gen(ti.T, &r, GenOpts{Size: 5 + int(seed%30)})
				p := NewInstance(cfg)
				data, err := p.Marshal(nil, v.Addr().Interface())
				if err != nil {
					t.Fatal(err)
				}
				perm, changed := PermuteFields(ti.T, data, r.Intn, false)
				if !changed {
					continue
				}
				out := reflect.New(ti.T)
				if err := p.Unmarshal(perm, out.Interface()); err != nil {
					t.Fatalf("%s %v seed %d: permuted record does not decode: %v\n%x\n%x", ti.Name, cfg, seed, err, data, perm)
				}
			}
		}
	}
}
