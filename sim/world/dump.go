package world

import (
	"fmt"
	"math"
	"reflect"
	"sort"
	"strconv"
	"strings"
	"time"
)

// Dump renders a value in a deterministic, type-name-free form: two values of
// structurally identical types (a type and its twin without the intern option)
// dump to the same string exactly when they hold the same data. nil and empty
// slices / maps dump alike; map entries are sorted by their dumped key.
func Dump(v reflect.Value) string {
	var b strings.Builder
	dump(&b, v, 0)
	return b.String()
}

func dump(b *strings.Builder, v reflect.Value, depth int) {
	if depth > 200 {
		b.WriteString("<deep>")
		return
	}
	if !v.IsValid() {
		b.WriteString("<invalid>")
		return
	}
	t := v.Type()
	if t == tTime {
		tm := v.Interface().(time.Time)
		fmt.Fprintf(b, "T(%d.%09d %s)", tm.Unix(), tm.Nanosecond(), tm.Location())
		return
	}
	switch t.Kind() {
	case reflect.Bool:
		b.WriteString(strconv.FormatBool(v.Bool()))
	case reflect.Int, reflect.Int8, reflect.Int16, reflect.Int32, reflect.Int64:
		b.WriteString(strconv.FormatInt(v.Int(), 10))
	case reflect.Uint, reflect.Uint8, reflect.Uint16, reflect.Uint32, reflect.Uint64, reflect.Uintptr:
		b.WriteString(strconv.FormatUint(v.Uint(), 10))
		b.WriteByte('u')
	case reflect.Float32, reflect.Float64:
		fmt.Fprintf(b, "f%x", math.Float64bits(v.Float()))
	case reflect.String:
		b.WriteString(strconv.Quote(v.String()))
	case reflect.Ptr:
		if v.IsNil() {
			b.WriteString("nil")
			return
		}
		b.WriteByte('&')
		dump(b, v.Elem(), depth+1)
	case reflect.Interface:
		if v.IsNil() {
			b.WriteString("nil")
			return
		}
		fmt.Fprintf(b, "(%s)", v.Elem().Type())
		dump(b, v.Elem(), depth+1)
	case reflect.Struct:
		b.WriteByte('{')
		for i := 0; i < t.NumField(); i++ {
			if t.Field(i).PkgPath != "" {
				continue
			}
			b.WriteString(t.Field(i).Name)
			b.WriteByte(':')
			dump(b, v.Field(i), depth+1)
			b.WriteByte(' ')
		}
		b.WriteByte('}')
	case reflect.Slice, reflect.Array:
		if t.Elem().Kind() == reflect.Uint8 && t.Kind() == reflect.Slice {
			fmt.Fprintf(b, "x%x", v.Bytes())
			return
		}
		b.WriteByte('[')
		for i := 0; i < v.Len(); i++ {
			dump(b, v.Index(i), depth+1)
			b.WriteByte(' ')
		}
		b.WriteByte(']')
	case reflect.Map:
		type kv struct{ k, v string }
		var es []kv
		it := v.MapRange()
		for it.Next() {
			var kb, vb strings.Builder
			dump(&kb, it.Key(), depth+1)
			dump(&vb, it.Value(), depth+1)
			es = append(es, kv{kb.String(), vb.String()})
		}
		sort.Slice(es, func(i, j int) bool { return es[i].k < es[j].k })
		b.WriteString("map[")
		for _, e := range es {
			b.WriteString(e.k)
			b.WriteString("=>")
			b.WriteString(e.v)
			b.WriteByte(' ')
		}
		b.WriteByte(']')
	default:
		b.WriteString("<" + t.Kind().String() + ">")
	}
}

// DiffDump returns a short description of where two dumps first differ.
func DiffDump(a, b string) string {
	i := 0
	for i < len(a) && i < len(b) && a[i] == b[i] {
		i++
	}
	lo := i - 30
	if lo < 0 {
		lo = 0
	}
	ha, hb := i+40, i+40
	if ha > len(a) {
		ha = len(a)
	}
	if hb > len(b) {
		hb = len(b)
	}
	return fmt.Sprintf("at offset %d: ...%s vs ...%s", i, a[lo:ha], b[lo:hb])
}

// ConvertTo copies src into a new value of the structurally identical type dst
// (fields matched by name).
func ConvertTo(src reflect.Value, dst reflect.Type) reflect.Value {
	out := reflect.New(dst).Elem()
	convert(out, src, 0)
	return out
}

func convert(dst, src reflect.Value, depth int) {
	if depth > 200 {
		panic("convert: too deep")
	}
	st, dt := src.Type(), dst.Type()
	if st == dt {
		clone(dst, src, depth)
		return
	}
	switch st.Kind() {
	case reflect.Ptr:
		if src.IsNil() {
			return
		}
		p := reflect.New(dt.Elem())
		convert(p.Elem(), src.Elem(), depth+1)
		dst.Set(p)
	case reflect.Struct:
		for i := 0; i < st.NumField(); i++ {
			if st.Field(i).PkgPath != "" {
				continue
			}
			f := dst.FieldByName(st.Field(i).Name)
			if !f.IsValid() {
				panic("convert: field " + st.Field(i).Name + " missing in " + dt.String())
			}
			convert(f, src.Field(i), depth+1)
		}
	case reflect.Slice:
		if src.IsNil() {
			return
		}
		n := src.Len()
		s := reflect.MakeSlice(dt, n, n)
		for i := 0; i < n; i++ {
			convert(s.Index(i), src.Index(i), depth+1)
		}
		dst.Set(s)
	case reflect.Map:
		if src.IsNil() {
			return
		}
		m := reflect.MakeMapWithSize(dt, src.Len())
		it := src.MapRange()
		for it.Next() {
			k := reflect.New(dt.Key()).Elem()
			convert(k, it.Key(), depth+1)
			e := reflect.New(dt.Elem()).Elem()
			convert(e, it.Value(), depth+1)
			m.SetMapIndex(k, e)
		}
		dst.Set(m)
	default:
		dst.Set(src.Convert(dt))
	}
}

// InvertBytes flips every byte of every byte slice reachable from v (in
// place) and returns how many bytes were changed.
func InvertBytes(v reflect.Value) int {
	return invert(v, 0)
}

func invert(v reflect.Value, depth int) int {
	if depth > 200 || !v.IsValid() {
		return 0
	}
	t := v.Type()
	if t == tTime {
		return 0
	}
	n := 0
	switch t.Kind() {
	case reflect.Ptr, reflect.Interface:
		if !v.IsNil() {
			n += invert(v.Elem(), depth+1)
		}
	case reflect.Struct:
		for i := 0; i < t.NumField(); i++ {
			if t.Field(i).PkgPath == "" {
				n += invert(v.Field(i), depth+1)
			}
		}
	case reflect.Slice:
		if t.Elem().Kind() == reflect.Uint8 {
			for i := 0; i < v.Len(); i++ {
				e := v.Index(i)
				e.SetUint(uint64(^byte(e.Uint())))
				n++
			}
			return n
		}
		for i := 0; i < v.Len(); i++ {
			n += invert(v.Index(i), depth+1)
		}
	case reflect.Map:
		it := v.MapRange()
		for it.Next() {
			n += invert(it.Value(), depth+1)
		}
	}
	return n
}
