package world

import (
	"fmt"
	"reflect"
	"sort"
	"strings"
	"unsafe"
)

// Phys renders everything a caller can observe about a value it owns without
// calling plenc: besides the data (as Dump does) the address, length and
// capacity of every slice, the elements between length and capacity, the
// address of every string's bytes, of every pointer's target and of every map.
// A function that "does not modify the value it is given" leaves this text
// unchanged. Addresses are stable: Go's collector does not move heap objects.
func Phys(v reflect.Value) string {
	var b strings.Builder
	phys(&b, v, 0)
	return b.String()
}

func phys(b *strings.Builder, v reflect.Value, depth int) {
	if depth > 200 || !v.IsValid() {
		b.WriteString("<end>")
		return
	}
	t := v.Type()
	if t == tTime {
		dump(b, v, depth)
		return
	}
	switch t.Kind() {
	case reflect.String:
		s := v.String()
		h := (*[2]uintptr)(unsafe.Pointer(&s))
		if h[1] == 0 {
			b.WriteString(`""`) // the data word of an empty string is not observable
			return
		}
		fmt.Fprintf(b, "@%x:%q", h[0], s)
	case reflect.Ptr:
		if v.IsNil() {
			b.WriteString("nil")
			return
		}
		fmt.Fprintf(b, "&@%x", v.Pointer())
		phys(b, v.Elem(), depth+1)
	case reflect.Interface:
		if v.IsNil() {
			b.WriteString("nil")
			return
		}
		fmt.Fprintf(b, "(%s)", v.Elem().Type())
		phys(b, v.Elem(), depth+1)
	case reflect.Struct:
		b.WriteByte('{')
		for i := 0; i < t.NumField(); i++ {
			if t.Field(i).PkgPath != "" {
				continue
			}
			b.WriteString(t.Field(i).Name)
			b.WriteByte(':')
			phys(b, v.Field(i), depth+1)
			b.WriteByte(' ')
		}
		b.WriteByte('}')
	case reflect.Slice:
		if v.IsNil() {
			b.WriteString("nil[]")
			return
		}
		fmt.Fprintf(b, "[@%x len=%d cap=%d:", v.Pointer(), v.Len(), v.Cap())
		full := v.Slice(0, v.Cap())
		if t.Elem().Kind() == reflect.Uint8 {
			fmt.Fprintf(b, "x%x", full.Bytes())
		} else {
			for i := 0; i < full.Len(); i++ {
				phys(b, full.Index(i), depth+1)
				b.WriteByte(' ')
			}
		}
		b.WriteByte(']')
	case reflect.Array:
		b.WriteByte('[')
		for i := 0; i < v.Len(); i++ {
			phys(b, v.Index(i), depth+1)
			b.WriteByte(' ')
		}
		b.WriteByte(']')
	case reflect.Map:
		if v.IsNil() {
			b.WriteString("nilmap")
			return
		}
		type kv struct{ k, v string }
		var es []kv
		it := v.MapRange()
		for it.Next() {
			var kb, vb strings.Builder
			phys(&kb, it.Key(), depth+1)
			phys(&vb, it.Value(), depth+1)
			es = append(es, kv{kb.String(), vb.String()})
		}
		sort.Slice(es, func(i, j int) bool {
			if es[i].k != es[j].k {
				return es[i].k < es[j].k
			}
			return es[i].v < es[j].v
		})
		fmt.Fprintf(b, "map@%x[", v.Pointer())
		for _, e := range es {
			b.WriteString(e.k)
			b.WriteString("=>")
			b.WriteString(e.v)
			b.WriteByte(' ')
		}
		b.WriteByte(']')
	default:
		dump(b, v, depth)
	}
}

// DiffPhys describes where two Phys texts first differ.
func DiffPhys(a, b string) string {
	i := 0
	for i < len(a) && i < len(b) && a[i] == b[i] {
		i++
	}
	lo := i - 60
	if lo < 0 {
		lo = 0
	}
	cut := func(s string) string {
		hi := i + 60
		if hi > len(s) {
			hi = len(s)
		}
		return s[lo:hi]
	}
	return fmt.Sprintf("before ...%s... after ...%s...", cut(a), cut(b))
}

// Reshape gives a generated value the physical shapes callers' values have
// and a generator that builds everything exactly sized does not: empty but
// non-nil slices (with and without capacity), slices with spare capacity whose
// spare elements hold old data, empty non-nil maps. The data - what Equal and
// Dump see, what Marshal encodes - is unchanged. next(n) draws from [0,n).
func Reshape(v reflect.Value, next func(n int) int) int {
	aliasRows = false
	return reshape(v, next, 0)
}

// ReshapeAliased is Reshape for a value whose data may change (the prior
// content of a target that is about to be decoded into): rows of slices of
// slices may additionally share memory with each other.
func ReshapeAliased(v reflect.Value, next func(n int) int) int {
	aliasRows = true
	defer func() { aliasRows = false }()
	return reshape(v, next, 0)
}

var aliasRows bool

func reshape(v reflect.Value, next func(n int) int, depth int) int {
	if depth > 40 || !v.IsValid() {
		return 0
	}
	t := v.Type()
	if t == tTime {
		return 0
	}
	n := 0
	switch t.Kind() {
	case reflect.Ptr:
		if !v.IsNil() {
			n += reshape(v.Elem(), next, depth+1)
		}
	case reflect.Interface:
		// JSON-like values: leave alone (their own codecs own their shapes)
	case reflect.Struct:
		for i := 0; i < t.NumField(); i++ {
			if t.Field(i).PkgPath == "" {
				n += reshape(v.Field(i), next, depth+1)
			}
		}
	case reflect.Array:
		for i := 0; i < v.Len(); i++ {
			n += reshape(v.Index(i), next, depth+1)
		}
	case reflect.Slice:
		if !v.CanSet() {
			return 0
		}
		switch {
		case v.Len() == 0:
			if next(2) == 0 {
				c := []int{0, 0, 1, 4, 16}[next(5)]
				s := reflect.MakeSlice(t, c, c)
				fillStale(s, next)
				v.Set(s.Slice(0, 0))
				n++
			}
		case next(3) == 0:
			extra := 1 + next(4)
			s := reflect.MakeSlice(t, v.Len()+extra, v.Len()+extra)
			reflect.Copy(s, v)
			fillStale(s.Slice(v.Len(), s.Len()), next)
			v.Set(s.Slice(0, v.Len()))
			n++
		}
		if t.Elem().Kind() != reflect.Uint8 {
			for i := 0; i < v.Len(); i++ {
				n += reshape(v.Index(i), next, depth+1)
			}
		}
		// the same pointer in several slots of a slice of pointers (also in its spare
		// capacity): legal in a caller's value; the data changes, so only where allowed
		if aliasRows && t.Elem().Kind() == reflect.Ptr && v.Len() >= 2 && next(2) == 0 {
			j := next(v.Len())
			if !v.Index(j).IsNil() {
				if next(2) == 0 {
					// every slot holds the one pointer (a default element stored everywhere)
					for i := 0; i < v.Len(); i++ {
						v.Index(i).Set(v.Index(j))
					}
				} else if i := next(v.Len()); i != j {
					v.Index(i).Set(v.Index(j))
				}
				n++
			}
			if full := v.Slice(0, v.Cap()); full.Len() > v.Len() {
				for k := v.Len(); k < full.Len(); k++ {
					full.Index(k).Set(v.Index(next(v.Len())))
				}
			}
		}
		// rows of a slice of slices that share memory: what callers' code leaves behind
		// (a row deleted with copy(rows, rows[1:]), a matrix laid over one flat buffer,
		// one default row stored in several places). Only where allowed to change the
		// data (a target about to be overwritten), see ReshapeAliased.
		if aliasRows && t.Elem().Kind() == reflect.Slice && t.Elem().Elem().Kind() != reflect.Uint8 && v.Len() >= 2 && next(2) == 0 {
			i, j := next(v.Len()), next(v.Len())
			if i != j && v.Index(j).Len() > 0 {
				switch next(3) {
				case 0: // the same header twice
					v.Index(i).Set(v.Index(j))
				case 1: // a prefix of the other row, capacity reaching into it
					v.Index(i).Set(v.Index(j).Slice(0, 1+next(v.Index(j).Len())))
				default: // the tail of the other row
					k := next(v.Index(j).Len())
					v.Index(i).Set(v.Index(j).Slice(k, v.Index(j).Len()))
				}
				n++
			}
			// and the spare capacity of the outer slice still holds headers of live rows
			if full := v.Slice(0, v.Cap()); full.Len() > v.Len() {
				for k := v.Len(); k < full.Len(); k++ {
					full.Index(k).Set(v.Index(next(v.Len())))
				}
			}
		}
	case reflect.Map:
		if !v.CanSet() {
			return 0
		}
		if v.Len() == 0 {
			if next(2) == 0 {
				v.Set(reflect.MakeMap(t))
				n++
			}
			return n
		}
		// map values are not addressable: reshape a copy and store it back
		// in a fixed order: the draws must not depend on Go's map iteration order
		var keys, vals []reflect.Value
		for _, k := range sortedKeys(v) {
			old := v.MapIndex(k)
			if !old.IsValid() {
				continue // a key that is not equal to itself (NaN)
			}
			e := reflect.New(t.Elem()).Elem()
			e.Set(old)
			if c := reshape(e, next, depth+1); c > 0 {
				keys = append(keys, k)
				vals = append(vals, e)
				n += c
			}
		}
		for i := range keys {
			v.SetMapIndex(keys[i], vals[i])
		}
	}
	return n
}

// fillStale puts non-zero leftovers into elements a caller has cut off.
func fillStale(s reflect.Value, next func(n int) int) {
	for i := 0; i < s.Len(); i++ {
		e := s.Index(i)
		switch e.Kind() {
		case reflect.Bool:
			e.SetBool(true)
		case reflect.Int, reflect.Int8, reflect.Int16, reflect.Int32, reflect.Int64:
			e.SetInt(int64(1 + next(100)))
		case reflect.Uint, reflect.Uint8, reflect.Uint16, reflect.Uint32, reflect.Uint64:
			e.SetUint(uint64(1 + next(100)))
		case reflect.Float32, reflect.Float64:
			e.SetFloat(float64(1 + next(100)))
		case reflect.String:
			e.SetString(freshString("stale-" + string(rune('a'+next(26)))))
		}
	}
}

// Overlaps reports whether any memory the value owns - the backing array of a
// slice up to its capacity (also of an empty one), the bytes of a string, the
// target of a pointer - lies inside [lo, hi). It is the direct form of "shares
// no memory with": no content needs to change for it to show.
func Overlaps(v reflect.Value, lo, hi uintptr) (bool, string) {
	return overlaps(v, lo, hi, "", 0)
}

func within(p, n, lo, hi uintptr) bool {
	return n > 0 && p < hi && p+n > lo
}

func overlaps(v reflect.Value, lo, hi uintptr, path string, depth int) (bool, string) {
	if depth > 200 || !v.IsValid() {
		return false, ""
	}
	t := v.Type()
	if t == tTime {
		return false, ""
	}
	switch t.Kind() {
	case reflect.String:
		s := v.String()
		h := (*[2]uintptr)(unsafe.Pointer(&s))
		if within(h[0], h[1], lo, hi) {
			return true, path + ": the string's bytes"
		}
	case reflect.Ptr:
		if v.IsNil() {
			return false, ""
		}
		if within(v.Pointer(), t.Elem().Size(), lo, hi) {
			return true, path + ": the pointer's target"
		}
		return overlaps(v.Elem(), lo, hi, path+"*", depth+1)
	case reflect.Interface:
		if !v.IsNil() {
			return overlaps(v.Elem(), lo, hi, path, depth+1)
		}
	case reflect.Struct:
		for i := 0; i < t.NumField(); i++ {
			if t.Field(i).PkgPath != "" {
				continue
			}
			if ok, p := overlaps(v.Field(i), lo, hi, path+"."+t.Field(i).Name, depth+1); ok {
				return true, p
			}
		}
	case reflect.Slice:
		if v.IsNil() {
			return false, ""
		}
		if within(v.Pointer(), uintptr(v.Cap())*t.Elem().Size(), lo, hi) {
			return true, fmt.Sprintf("%s: the slice's backing array (len %d, cap %d)", path, v.Len(), v.Cap())
		}
		if k := t.Elem().Kind(); k == reflect.String || k == reflect.Slice || k == reflect.Ptr || k == reflect.Struct || k == reflect.Interface || k == reflect.Map || k == reflect.Array {
			for i := 0; i < v.Len(); i++ {
				if ok, p := overlaps(v.Index(i), lo, hi, fmt.Sprintf("%s[%d]", path, i), depth+1); ok {
					return true, p
				}
			}
		}
	case reflect.Array:
		for i := 0; i < v.Len(); i++ {
			if ok, p := overlaps(v.Index(i), lo, hi, fmt.Sprintf("%s[%d]", path, i), depth+1); ok {
				return true, p
			}
		}
	case reflect.Map:
		it := v.MapRange()
		for it.Next() {
			if ok, p := overlaps(it.Key(), lo, hi, path+"[key]", depth+1); ok {
				return true, p
			}
			if ok, p := overlaps(it.Value(), lo, hi, fmt.Sprintf("%s[%v]", path, trunc(fmt.Sprint(it.Key()))), depth+1); ok {
				return true, p
			}
		}
	}
	return false, ""
}

// Region is a range of memory a value owns and can change through: the backing
// array of a slice (up to its capacity), the target of a pointer, a map
// (identified by its address). String bytes are not included: they are
// immutable, and interning shares them between results on purpose.
type Region struct {
	Lo, Hi uintptr
	Path   string
}

// MutableRegions lists the regions of everything reachable from v.
func MutableRegions(v reflect.Value) []Region {
	var out []Region
	regions(v, "", 0, &out)
	return out
}

func regions(v reflect.Value, path string, depth int, out *[]Region) {
	if depth > 200 || !v.IsValid() {
		return
	}
	t := v.Type()
	if t == tTime {
		return
	}
	switch t.Kind() {
	case reflect.Ptr:
		if v.IsNil() {
			return
		}
		if sz := t.Elem().Size(); sz > 0 {
			*out = append(*out, Region{v.Pointer(), v.Pointer() + sz, path + ": the pointer's target"})
		}
		regions(v.Elem(), path+"*", depth+1, out)
	case reflect.Interface:
		if !v.IsNil() {
			regions(v.Elem(), path, depth+1, out)
		}
	case reflect.Struct:
		for i := 0; i < t.NumField(); i++ {
			if t.Field(i).PkgPath == "" {
				regions(v.Field(i), path+"."+t.Field(i).Name, depth+1, out)
			}
		}
	case reflect.Slice:
		if v.IsNil() {
			return
		}
		if n := uintptr(v.Cap()) * t.Elem().Size(); n > 0 {
			*out = append(*out, Region{v.Pointer(), v.Pointer() + n, fmt.Sprintf("%s: the slice's backing array (len %d, cap %d)", path, v.Len(), v.Cap())})
		}
		switch t.Elem().Kind() {
		case reflect.Slice, reflect.Ptr, reflect.Struct, reflect.Interface, reflect.Map, reflect.Array:
			for i := 0; i < v.Len(); i++ {
				regions(v.Index(i), fmt.Sprintf("%s[%d]", path, i), depth+1, out)
			}
		}
	case reflect.Array:
		for i := 0; i < v.Len(); i++ {
			regions(v.Index(i), fmt.Sprintf("%s[%d]", path, i), depth+1, out)
		}
	case reflect.Map:
		if v.IsNil() {
			return
		}
		*out = append(*out, Region{v.Pointer(), v.Pointer() + 1, path + ": the map"})
		it := v.MapRange()
		for it.Next() {
			regions(it.Key(), path+"[key]", depth+1, out)
			regions(it.Value(), fmt.Sprintf("%s[%v]", path, trunc(fmt.Sprint(it.Key()))), depth+1, out)
		}
	}
}

// RegionsOverlap returns the first pair of overlapping regions.
func RegionsOverlap(a, b []Region) (bool, Region, Region) {
	for _, x := range a {
		for _, y := range b {
			if x.Lo < y.Hi && y.Lo < x.Hi {
				return true, x, y
			}
		}
	}
	return false, Region{}, Region{}
}

// AbandonedChanged compares kept - a shallow copy the caller took of a target's
// value before decoding into the target again - with exp, a deep copy taken at
// the same moment. Memory the target still uses (now: its regions after the
// decode) may have been rewritten, that is what re-using a target means; but
// memory that only the caller's copy still references belongs to the caller:
// nobody may write to it any more. Returns the path of the first change.
func AbandonedChanged(kept, exp reflect.Value, now []Region) (bool, string) {
	return abandoned(kept, exp, now, "", 0)
}

func inUse(lo, hi uintptr, now []Region) bool {
	for _, r := range now {
		if lo < r.Hi && r.Lo < hi {
			return true
		}
	}
	return false
}

func abandoned(k, e reflect.Value, now []Region, path string, depth int) (bool, string) {
	if depth > 100 || !k.IsValid() || !e.IsValid() {
		return false, ""
	}
	t := k.Type()
	if t == tTime {
		return false, ""
	}
	switch t.Kind() {
	case reflect.Struct:
		for i := 0; i < t.NumField(); i++ {
			if t.Field(i).PkgPath != "" {
				continue
			}
			if ch, p := abandoned(k.Field(i), e.Field(i), now, path+"."+t.Field(i).Name, depth+1); ch {
				return true, p
			}
		}
	case reflect.Ptr:
		if k.IsNil() || e.IsNil() {
			return false, ""
		}
		sz := t.Elem().Size()
		if sz > 0 && !inUse(k.Pointer(), k.Pointer()+sz, now) {
			if ok, p := eq(k.Elem(), e.Elem(), path+"*", depth+1); !ok {
				return true, p
			}
			return false, ""
		}
		// the target still points there: look inside for parts it dropped
		return abandoned(k.Elem(), e.Elem(), now, path+"*", depth+1)
	case reflect.Slice:
		if k.IsNil() || k.Cap() == 0 {
			return false, ""
		}
		n := uintptr(k.Cap()) * t.Elem().Size()
		if n > 0 && !inUse(k.Pointer(), k.Pointer()+n, now) {
			if ok, p := eq(k, e, path, depth+1); !ok {
				return true, p
			}
		}
	case reflect.Map:
		if k.IsNil() {
			return false, ""
		}
		if !inUse(k.Pointer(), k.Pointer()+1, now) {
			if ok, p := eq(k, e, path, depth+1); !ok {
				return true, p
			}
		}
	}
	return false, ""
}
