package world

import (
	"reflect"
	"time"

	"verifsim/engine"
)

// Mutate derives a related value from v in place: some leaves are set to zero,
// some are changed, slices are cut or extended, map entries keep their key but
// get a zero or a new value, a few entries are removed or added. Decoding the
// encoding of a mutated value into a target that holds the original is what
// exercises merge rules on overlapping content (same keys, shorter slices,
// zero over non-zero).
func Mutate(v reflect.Value, r *engine.PRNG, o GenOpts) {
	if o.MaxDepth == 0 {
		o.MaxDepth = 4
	}
	if o.ZeroPct == 0 {
		o.ZeroPct = 30
	}
	if o.Size == 0 {
		o.Size = 12
	}
	g := &gen{r: r, o: o, budget: o.Size}
	g.mutate(v, 0)
}

func (g *gen) mutate(v reflect.Value, depth int) {
	if depth > 12 || !v.CanSet() {
		return
	}
	t := v.Type()
	zero := func() { v.Set(reflect.Zero(t)) }
	regen := func() {
		g.budget = 6
		nv := reflect.New(t).Elem()
		g.fill(nv, depth, false)
		v.Set(nv)
	}
	if t == tTime || isNullType(t) || t == tJSONNum {
		switch g.r.Intn(4) {
		case 0:
			zero()
		case 1:
			regen()
		}
		return
	}
	switch t.Kind() {
	case reflect.Bool, reflect.Int, reflect.Int8, reflect.Int16, reflect.Int32, reflect.Int64,
		reflect.Uint, reflect.Uint8, reflect.Uint16, reflect.Uint32, reflect.Uint64,
		reflect.Float32, reflect.Float64, reflect.String:
		switch g.r.Intn(4) {
		case 0:
			zero()
		case 1:
			regen()
		}
	case reflect.Ptr:
		switch {
		case v.IsNil():
			if g.r.Intn(3) == 0 {
				regen()
			}
		case g.r.Intn(5) == 0:
			zero()
		default:
			g.mutate(v.Elem(), depth+1)
		}
	case reflect.Interface:
		if g.r.Intn(3) == 0 {
			regen()
		}
	case reflect.Struct:
		for i := 0; i < t.NumField(); i++ {
			sf := t.Field(i)
			if sf.PkgPath != "" {
				continue
			}
			if tag := sf.Tag.Get("plenc"); tag == "-" || tag == "" {
				continue
			}
			if k := sf.Type.Kind(); k == reflect.Chan || k == reflect.Func {
				continue
			}
			g.mutate(v.Field(i), depth+1)
		}
	case reflect.Slice:
		if t.Elem().Kind() == reflect.Uint8 {
			switch g.r.Intn(4) {
			case 0:
				zero()
			case 1:
				regen()
			}
			return
		}
		n := v.Len()
		switch g.r.Intn(5) {
		case 0:
			zero()
		case 1: // shorter
			if n > 1 {
				k := 1 + g.r.Intn(n-1)
				nv := reflect.MakeSlice(t, k, k)
				reflect.Copy(nv, v.Slice(0, k))
				v.Set(nv)
			}
		case 2: // longer
			extra := 1 + g.r.Intn(3)
			nv := reflect.MakeSlice(t, n+extra, n+extra)
			reflect.Copy(nv, v)
			for i := n; i < n+extra; i++ {
				g.budget = 4
				e := nv.Index(i)
				if t.Elem().Kind() == reflect.Ptr {
					p := reflect.New(t.Elem().Elem())
					g.fill(p.Elem(), depth+1, false)
					e.Set(p)
				} else {
					g.fill(e, depth+1, false)
				}
			}
			v.Set(nv)
		default:
			for i := 0; i < n; i++ {
				e := v.Index(i)
				if t.Elem().Kind() == reflect.Ptr {
					if !e.IsNil() {
						g.mutate(e.Elem(), depth+1) // no nil entries in pointer slices
					}
				} else {
					g.mutate(e, depth+1)
				}
			}
		}
	case reflect.Map:
		if v.IsNil() {
			if g.r.Intn(3) == 0 {
				regen()
			}
			return
		}
		if g.r.Intn(8) == 0 {
			zero()
			return
		}
		// keys in a deterministic order: collect, then sort by dump
		keys := sortedKeys(v)
		for _, k := range keys {
			c := g.r.Intn(5)
			if k.IsZero() && g.r.Intn(2) == 0 {
				c = 0 // the zero key: same key, zero value, more often (both omitted on the wire)
			}
			switch c {
			case 0: // same key, zero value
				v.SetMapIndex(k, reflect.Zero(t.Elem()))
			case 1: // same key, new value
				e := reflect.New(t.Elem()).Elem()
				g.budget = 4
				if t.Elem().Kind() == reflect.Ptr {
					p := reflect.New(t.Elem().Elem())
					g.fill(p.Elem(), depth+1, false)
					e.Set(p)
				} else {
					g.fill(e, depth+1, false)
				}
				v.SetMapIndex(k, e)
			case 2: // removed
				v.SetMapIndex(k, reflect.Value{})
			}
		}
		if g.r.Intn(3) == 0 {
			k := reflect.New(t.Key()).Elem()
			g.budget = 4
			g.fill(k, depth+1, false)
			e := reflect.New(t.Elem()).Elem()
			g.budget = 4
			if t.Elem().Kind() != reflect.Ptr {
				g.fill(e, depth+1, false)
			}
			v.SetMapIndex(k, e)
		}
	}
}

func sortedKeys(m reflect.Value) []reflect.Value {
	type kd struct {
		k reflect.Value
		d string
	}
	var ks []kd
	it := m.MapRange()
	for it.Next() {
		ks = append(ks, kd{it.Key(), Dump(it.Key())})
	}
	for i := 1; i < len(ks); i++ {
		for j := i; j > 0 && ks[j].d < ks[j-1].d; j-- {
			ks[j], ks[j-1] = ks[j-1], ks[j]
		}
	}
	out := make([]reflect.Value, len(ks))
	for i := range ks {
		out[i] = ks[i].k
	}
	return out
}

var _ = time.Now
