package world

import (
	"fmt"
	"reflect"
)

// SlicesExact checks the clause "a decoded slice holds exactly the encoded
// elements" on a re-used target: every slice (not in the protobuf repeated
// form) that the data contains - seen as non-empty in a fresh decode of the
// same bytes - must be deep-equal in the re-used target. Nested structs and
// non-nil pointers are followed; maps are not (they merge by key).
func SlicesExact(reused, fresh reflect.Value, cfg InstCfg) (bool, string) {
	return slicesExact(reused, fresh, cfg, false, "", 0)
}

func slicesExact(a, f reflect.Value, cfg InstCfg, proto bool, path string, depth int) (bool, string) {
	if depth > 50 {
		return true, ""
	}
	t := f.Type()
	if t == tTime || isNullType(t) {
		return true, ""
	}
	switch t.Kind() {
	case reflect.Struct:
		for i := 0; i < t.NumField(); i++ {
			sf := t.Field(i)
			if sf.PkgPath != "" {
				continue
			}
			if tag := sf.Tag.Get("plenc"); tag == "" || tag == "-" {
				continue
			}
			if ok, p := slicesExact(a.Field(i), f.Field(i), cfg, isProtoField(sf, cfg), path+"."+sf.Name, depth+1); !ok {
				return false, p
			}
		}
	case reflect.Ptr:
		if f.IsNil() || a.IsNil() {
			return true, ""
		}
		return slicesExact(a.Elem(), f.Elem(), cfg, false, path+"*", depth+1)
	case reflect.Slice:
		if proto || f.Len() == 0 {
			return true, ""
		}
		if ok, p := Equal(a, f); !ok {
			return false, fmt.Sprintf("%s: slice in the re-used target is not exactly the encoded elements (%s)", path, p)
		}
	}
	return true, ""
}

// Reslice models a caller that re-uses a value the usual way: every slice in
// it is cut to a shorter length (often zero) with its capacity - and the old
// elements beyond the new length - left in place. It returns how many slices
// were cut.
func Reslice(v reflect.Value, next func(n int) int) int {
	return reslice(v, next, 0)
}

func reslice(v reflect.Value, next func(n int) int, depth int) int {
	if depth > 20 || !v.IsValid() {
		return 0
	}
	t := v.Type()
	if t == tTime {
		return 0
	}
	n := 0
	switch t.Kind() {
	case reflect.Ptr:
		if !v.IsNil() {
			n += reslice(v.Elem(), next, depth+1)
		}
	case reflect.Struct:
		for i := 0; i < t.NumField(); i++ {
			if t.Field(i).PkgPath == "" {
				n += reslice(v.Field(i), next, depth+1)
			}
		}
	case reflect.Slice:
		if v.Len() > 0 && v.CanSet() {
			keep := 0
			if next(3) == 0 {
				keep = next(v.Len())
			}
			for i := 0; i < keep; i++ {
				n += reslice(v.Index(i), next, depth+1)
			}
			v.SetLen(keep)
			n++
		}
	}
	return n
}
