package world

import (
	"fmt"
	"reflect"
)

// SlicesExact checks the clause "a decoded slice holds exactly the encoded
// elements" on a re-used target: every slice (not in the protobuf repeated
// form) that the data contains must be deep-equal to what a fresh decode of the
// same bytes gives. A slice counts as contained in the data when it is the
// top-level value, when its field index occurs in the top-level message
// (present: from the wire), or - deeper down, where presence is not known - when
// the fresh decode is non-empty. Nested structs and non-nil pointers are
// followed; maps are not (they merge by key).
func SlicesExact(reused, fresh reflect.Value, cfg InstCfg, present map[int]bool) (bool, string) {
	return slicesExact(reused, fresh, cfg, false, "", 0, present, true)
}

func slicesExact(a, f reflect.Value, cfg InstCfg, proto bool, path string, depth int, present map[int]bool, known bool) (bool, string) {
	if depth > 50 {
		return true, ""
	}
	t := f.Type()
	if t == tTime || isNullType(t) {
		return true, ""
	}
	switch t.Kind() {
	case reflect.Struct:
		for i := 0; i < t.NumField(); i++ {
			sf := t.Field(i)
			if sf.PkgPath != "" {
				continue
			}
			tag := sf.Tag.Get("plenc")
			if tag == "" || tag == "-" {
				continue
			}
			k := false
			if depth == 0 && present != nil {
				k = present[fieldIndex(tag)]
			}
			if ok, p := slicesExact(a.Field(i), f.Field(i), cfg, isProtoField(sf, cfg), path+"."+sf.Name, depth+1, nil, k); !ok {
				return false, p
			}
		}
	case reflect.Ptr:
		if f.IsNil() || a.IsNil() {
			return true, ""
		}
		return slicesExact(a.Elem(), f.Elem(), cfg, proto, path+"*", depth+1, nil, known)
	case reflect.Slice:
		if proto || (f.Len() == 0 && !known) {
			return true, ""
		}
		if ok, p := Equal(a, f); !ok {
			return false, fmt.Sprintf("%s: slice in the re-used target is not exactly the encoded elements (%s)", path, p)
		}
	}
	return true, ""
}

func fieldIndex(tag string) int {
	n := 0
	for i := 0; i < len(tag) && tag[i] >= '0' && tag[i] <= '9'; i++ {
		n = n*10 + int(tag[i]-'0')
	}
	return n
}

// PresentFields lists the field indexes that occur in a top-level struct
// message (nil if the bytes do not parse).
func PresentFields(data []byte) map[int]bool {
	out := map[int]bool{}
	off := 0
	for off < len(data) {
		tag, n, err := uvarint(data[off:])
		if err != nil {
			return nil
		}
		off += n
		wt, idx := int(tag&7), int(tag>>3)
		out[idx] = true
		switch wt {
		case WTVarInt:
			_, n, err := uvarint(data[off:])
			if err != nil {
				return nil
			}
			off += n
		case WT64:
			off += 8
		case WT32:
			off += 4
		case WTLength:
			l, n, err := uvarint(data[off:])
			if err != nil || l > uint64(len(data)-off-n) {
				return nil
			}
			off += n + int(l)
		case WTSlice:
			ext, err := sliceExtent(data[off:])
			if err != nil {
				return nil
			}
			off += ext
		default:
			return nil
		}
		if off > len(data) {
			return nil
		}
	}
	return out
}

// Reslice models a caller that re-uses a value the usual way: every slice in
// it is cut to a shorter length (often zero) with its capacity - and the old
// elements beyond the new length - left in place. It returns how many slices
// were cut.
func Reslice(v reflect.Value, next func(n int) int) int {
	return reslice(v, next, 0)
}

func reslice(v reflect.Value, next func(n int) int, depth int) int {
	if depth > 20 || !v.IsValid() {
		return 0
	}
	t := v.Type()
	if t == tTime {
		return 0
	}
	n := 0
	switch t.Kind() {
	case reflect.Ptr:
		if !v.IsNil() {
			n += reslice(v.Elem(), next, depth+1)
		}
	case reflect.Struct:
		for i := 0; i < t.NumField(); i++ {
			if t.Field(i).PkgPath == "" {
				n += reslice(v.Field(i), next, depth+1)
			}
		}
	case reflect.String:
		// the caller shortens a string it holds (s = s[:k]): same bytes, fewer of them
		if v.Len() > 1 && v.CanSet() && next(3) == 0 {
			v.SetString(v.String()[:next(v.Len())])
			n++
		}
	case reflect.Slice:
		if v.Len() > 0 && v.CanSet() {
			keep := 0
			if next(3) == 0 {
				keep = next(v.Len())
			}
			for i := 0; i < keep; i++ {
				n += reslice(v.Index(i), next, depth+1)
			}
			v.SetLen(keep)
			n++
		}
	}
	return n
}
