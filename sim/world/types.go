// Package world holds the simulated world of the plenc simulator: type
// families, instance configurations, a seeded value generator, deep equality,
// deep clone and a wire-level canonicaliser.
package world

import (
	"reflect"
	"sort"
	"time"

	"github.com/unravelin/null"
)

// ---------------------------------------------------------------------------
// F1: wide, non-recursive

type MyInt int
type MyString string
type MyBytes []byte
type MyFloat float64

type Inner struct {
	A int       `plenc:"1"`
	S string    `plenc:"2"`
	T time.Time `plenc:"3"`
	B []byte    `plenc:"4"`
	F float64   `plenc:"5"`
}

type Small struct {
	X int    `plenc:"1"`
	Y string `plenc:"2"`
}

// Reading and its namesakes: distinct types whose reflect.Type.String() is the
// same ("world.Reading"): types declared inside functions print like the
// package-level type of that name. Anything keyed by a type's printed name
// confuses them.
type Reading struct {
	ID    int64  `plenc:"1"`
	Value int64  `plenc:"2"`
	Unit  string `plenc:"3"`
}

func namesakeA() interface{} {
	type Reading struct {
		Value int64  `plenc:"5"`
		ID    int64  `plenc:"6"`
		Note  string `plenc:"1"`
	}
	return Reading{}
}

func namesakeB() interface{} {
	type Reading struct {
		A []int64 `plenc:"1"`
		B float64 `plenc:"2"`
	}
	return Reading{}
}

// Pts: slices of a struct without any pointer in it (numbers and bools only):
// memory for such arrays needs no pointer map and may be obtained differently.
type Pt struct {
	X int64   `plenc:"1"`
	Y int64   `plenc:"2"`
	W float64 `plenc:"3"`
	F bool    `plenc:"4"`
	U uint32  `plenc:"5"`
}

type Pts struct {
	N int  `plenc:"1"`
	P []Pt `plenc:"2"`
	Q []Pt `plenc:"3"`
}

// MapTree: a type that refers to itself through a map value (and nothing else).
type MapTree struct {
	V    int                `plenc:"1"`
	Kids map[string]MapTree `plenc:"2"`
	S    string             `plenc:"3"`
}

// Zeros: elements, values and fields of size zero.
type Empty struct{}

type Zeros struct {
	A  int                 `plenc:"1"`
	T  []struct{}          `plenc:"2"`
	E  Empty               `plenc:"3"`
	Es []Empty             `plenc:"4"`
	M  map[string]struct{} `plenc:"5"`
	P  *Empty              `plenc:"6"`
	Z  string              `plenc:"7"`
}

// Ptrs: a pointer to every scalar kind, and containers of such pointers.
type Ptrs struct {
	B    *bool            `plenc:"1"`
	I8   *int8            `plenc:"2"`
	I16  *int16           `plenc:"3"`
	I32  *int32           `plenc:"4"`
	I64  *int64           `plenc:"5"`
	U    *uint            `plenc:"6"`
	U8   *uint8           `plenc:"7"`
	U16  *uint16          `plenc:"8"`
	U32  *uint32          `plenc:"9"`
	U64  *uint64          `plenc:"10"`
	F32  *float32         `plenc:"11"`
	F64  *float64         `plenc:"12"`
	S    *string          `plenc:"13"`
	T    *time.Time       `plenc:"14"`
	By   *[]byte          `plenc:"15"`
	NI   *null.Int        `plenc:"16"`
	Bs   []*bool          `plenc:"17"`
	Is   []*int           `plenc:"18"`
	Ss   []*string        `plenc:"19"`
	MB   map[string]*bool `plenc:"20"`
	MI   map[int]*int     `plenc:"21"`
	Name *MyString        `plenc:"22"`
	Sym  *string          `plenc:"23,intern"`
}

type Wide struct {
	I     int               `plenc:"1"`
	I8    int8              `plenc:"2"`
	I16   int16             `plenc:"3"`
	I32   int32             `plenc:"4"`
	I64   int64             `plenc:"5"`
	U     uint              `plenc:"6"`
	U8    uint8             `plenc:"7"`
	U16   uint16            `plenc:"8"`
	U32   uint32            `plenc:"9"`
	U64   uint64            `plenc:"10"`
	F32   float32           `plenc:"11"`
	F64   float64           `plenc:"12"`
	B     bool              `plenc:"13"`
	S     string            `plenc:"14"`
	Bs    []byte            `plenc:"15"`
	T     time.Time         `plenc:"16"`
	FI    int               `plenc:"17,flat"`
	PI    *int              `plenc:"18"`
	PS    *string           `plenc:"19"`
	PIn   *Inner            `plenc:"20"`
	In    Inner             `plenc:"21"`
	Is    []int             `plenc:"22"`
	Fs    []float64         `plenc:"23"`
	F32s  []float32         `plenc:"24"`
	Ss    []string          `plenc:"25"`
	Bss   [][]byte          `plenc:"26"`
	Ins   []Inner           `plenc:"27"`
	PIns  []*Inner          `plenc:"28"`
	Us    []uint32          `plenc:"29"`
	Bools []bool            `plenc:"30"`
	Ts    []time.Time       `plenc:"31"`
	M     map[string]int    `plenc:"32"`
	MS    map[string]Small  `plenc:"33"`
	Named MyInt             `plenc:"34"`
	NS    MyString          `plenc:"35"`
	NB    MyBytes           `plenc:"36"`
	Sym   string            `plenc:"37,intern"`
	PrIns []Inner           `plenc:"38,proto"`
	PrM   map[string]string `plenc:"39,proto"`
	NI    null.Int          `plenc:"40"`
	NStr  null.String       `plenc:"41"`
	NT    null.Time         `plenc:"42"`
	NF    null.Float        `plenc:"43"`
	NBo   null.Bool         `plenc:"44"`
	PIs   []*int            `plenc:"45"`
	IIs   [][]int           `plenc:"46"`
	PSl   *[]int            `plenc:"47"`
	PSs   *[]string         `plenc:"48"`
	Skip  int               `plenc:"-"`
	priv  int
}

// ---------------------------------------------------------------------------
// F2: self-recursive

type Node struct {
	Name   string           `plenc:"1"`
	Val    int              `plenc:"2"`
	Next   *Node            `plenc:"3"`
	Kids   []*Node          `plenc:"4"`
	ByName map[string]*Node `plenc:"5"`
	Tags   []string         `plenc:"6"`
}

type Tree struct {
	L    *Tree  `plenc:"1"`
	R    *Tree  `plenc:"2"`
	Leaf Small  `plenc:"3"`
	All  []Tree `plenc:"4"`
}

// ---------------------------------------------------------------------------
// F3: mutually recursive

type RA struct {
	N  int    `plenc:"1"`
	B  *RB    `plenc:"2"`
	Cs []*RC  `plenc:"3"`
	S  string `plenc:"4,intern"`
}

type RB struct {
	N  int            `plenc:"1"`
	C  *RC            `plenc:"2"`
	As []RA           `plenc:"3"`
	M  map[string]*RA `plenc:"4"`
}

type RC struct {
	N  int       `plenc:"1"`
	A  *RA       `plenc:"2"`
	B  *RB       `plenc:"3"`
	T  time.Time `plenc:"4"`
	Bs []RB      `plenc:"5"`
}

// ---------------------------------------------------------------------------
// F4: several roots sharing inner types

type Shared1 struct {
	K string  `plenc:"1"`
	V []Small `plenc:"2"`
}

type Shared2 struct {
	S1 *Shared1         `plenc:"1"`
	M  map[int]*Shared1 `plenc:"2"`
	Z  float32          `plenc:"3"`
}

type RootA struct {
	A  Shared1   `plenc:"1"`
	B  *Shared2  `plenc:"2"`
	Cs []Shared2 `plenc:"3"`
}

type RootB struct {
	X  []*Shared1 `plenc:"1"`
	Y  Shared2    `plenc:"2"`
	In Inner      `plenc:"3"`
}

type RootC struct {
	P *RootA             `plenc:"1"`
	Q *RootB             `plenc:"2"`
	M map[string]Shared1 `plenc:"3"`
}

// ---------------------------------------------------------------------------
// F5: interning, each with a twin without the option

type Sym struct {
	A  string      `plenc:"1,intern"`
	B  string      `plenc:"2,intern"`
	C  string      `plenc:"3"`
	N  null.String `plenc:"4,intern"`
	X  int         `plenc:"5"`
	Bs []byte      `plenc:"6"`
}

type SymTwin struct {
	A  string      `plenc:"1"`
	B  string      `plenc:"2"`
	C  string      `plenc:"3"`
	N  null.String `plenc:"4"`
	X  int         `plenc:"5"`
	Bs []byte      `plenc:"6"`
}

type SymBox struct {
	Items []Sym          `plenc:"1"`
	ByKey map[string]Sym `plenc:"2"`
	One   *Sym           `plenc:"3"`
	Label string         `plenc:"4,intern"`
}

type SymBoxTwin struct {
	Items []SymTwin          `plenc:"1"`
	ByKey map[string]SymTwin `plenc:"2"`
	One   *SymTwin           `plenc:"3"`
	Label string             `plenc:"4"`
}

// ---------------------------------------------------------------------------
// F6: maps

type KeyS struct {
	A int    `plenc:"1"`
	B string `plenc:"2"`
	C bool   `plenc:"3"`
}

type Maps struct {
	SI   map[string]int    `plenc:"1"`
	IS   map[int]string    `plenc:"2"`
	KS   map[KeyS]string   `plenc:"3"`
	KV   map[KeyS]Small    `plenc:"4"`
	SP   map[string]*Small `plenc:"5"`
	SB   map[string][]byte `plenc:"6"`
	PrSS map[string]string `plenc:"7,proto"`
	PrKS map[KeyS]int      `plenc:"8,proto"`
	FP   map[float64]*int  `plenc:"9"`
	U8   map[uint8]bool    `plenc:"10"`
	SSl  map[string][]int  `plenc:"11"`
	Tail string            `plenc:"12"`
}

type MapKS map[KeyS]string
type MapSI map[string]int
type MapKV map[KeyS]Small

// ---------------------------------------------------------------------------
// FN: nested containers and unusual shapes (only shapes plenc supports:
// a *map field and a map of maps crash Marshal on valid values - C01/C08's
// matter - and are left out)

type IDs []int64
type Tags map[string]string

type OnlyMap struct {
	M map[string]int `plenc:"1"`
}

type Nest struct {
	II   [][]int                `plenc:"1"`
	FF   [][]float32            `plenc:"2"`
	PSI  []*[]int               `plenc:"3"`
	MSI  map[string][]int       `plenc:"4"`
	PS   *[]string              `plenc:"6"`
	Ids  IDs                    `plenc:"8"`
	Tg   Tags                   `plenc:"9"`
	NIs  []null.Int             `plenc:"10"`
	MNS  map[string]null.String `plenc:"11"`
	OM   OnlyMap                `plenc:"12"`
	POM  *OnlyMap               `plenc:"13"`
	PrII [][]int                `plenc:"14,proto"`
	BB   [][]byte               `plenc:"17"`
	PIn  **Inner                `plenc:"18"`
}

// NestD holds shapes that plenc only supports in its default slice form: a map
// whose values are slices of length-delimited elements does not survive a round
// trip with ProtoCompatibleArrays (the repeated value field has no framing
// inside a map entry) - C12's matter. Never used with that configuration.
type NestD struct {
	MIS map[int][]string    `plenc:"5"`
	MSS map[string][]string `plenc:"16"`
	MSI map[string][]int    `plenc:"4"`
	MIn map[string][]Inner  `plenc:"7"`
}

// ---------------------------------------------------------------------------
// JSON-any

type JArr struct {
	Arr []any `plenc:"1"`
}

type JNest struct {
	M  map[string][]any `plenc:"1"`
	O  map[string]any   `plenc:"2"`
	Tl string           `plenc:"3"`
}

type JDoc struct {
	ID  int            `plenc:"1"`
	Obj map[string]any `plenc:"2"`
	Arr []any          `plenc:"3"`
	S   string         `plenc:"4"`
}

// ---------------------------------------------------------------------------
// F8: versions (reader types older / newer than writer types)

type V1 struct {
	A int     `plenc:"1"`
	B string  `plenc:"2"`
	C []Inner `plenc:"3"`
}

type V2 struct {
	A int               `plenc:"1"`
	B string            `plenc:"2"`
	C []Inner           `plenc:"3"`
	D map[string]Small  `plenc:"4"`
	E []float64         `plenc:"5"`
	F *Inner            `plenc:"6"`
	G time.Time         `plenc:"7"`
	H []string          `plenc:"8"`
	I float32           `plenc:"9"`
	J map[string]string `plenc:"10,proto"`
}

type V0 struct {
	B string `plenc:"2"`
}

// Sparse / SparseNew: field indexes far apart (two-byte tags, gaps), and a newer
// version that adds indexes above the older one's largest.
type Sparse struct {
	A  int     `plenc:"1"`
	B  string  `plenc:"2"`
	Z  int     `plenc:"100"`
	Y  []int   `plenc:"250"`
	In *Sparse `plenc:"17"`
	// packed slices at indexes that are 1 / 2 modulo 64 and 128 (anything that keeps
	// per-field state in a word-sized mask confuses them with fields 1 and 2)
	W []int     `plenc:"65"`
	X []float64 `plenc:"129"`
	V []bool    `plenc:"66"`
}

type SparseNew struct {
	A  int        `plenc:"1"`
	B  string     `plenc:"2"`
	Z  int        `plenc:"100"`
	Y  []int      `plenc:"250"`
	In *SparseNew `plenc:"17"`
	N1 int        `plenc:"101"`
	N2 string     `plenc:"300"`
	N3 []string   `plenc:"1000"`
	W  []int      `plenc:"65"`
	X  []float64  `plenc:"129"`
	V  []bool     `plenc:"66"`
}

// ---------------------------------------------------------------------------
// F9: invalid families - construction must fail

type BadRec struct {
	N    int       `plenc:"1"`
	Next *BadRec   `plenc:"2"`
	Kids []*BadRec `plenc:"3"`
	Ch   chan int  `plenc:"4"`
}

type BadHolder struct {
	R  *BadRec `plenc:"1"`
	OK Small   `plenc:"2"`
}

type BadDup struct {
	N    int     `plenc:"1"`
	Self *BadDup `plenc:"2"`
	M    string  `plenc:"1"`
}

type BadNoTag struct {
	Self []*BadNoTag `plenc:"1"`
	X    int
}

// ---------------------------------------------------------------------------
// registry of named types

type TypeInfo struct {
	Name    string
	T       reflect.Type
	Family  string
	Twin    string // name of the twin without interning, if any
	Bad     bool   // construction must fail
	Top     bool   // usable as a top-level Marshal/Unmarshal type
	NoProto bool   // not usable with ProtoCompatibleArrays (plenc itself does not support the shape there)
}

var (
	Types    = map[string]*TypeInfo{}
	TypeList []*TypeInfo
)

func reg(name, family string, v interface{}, opts ...func(*TypeInfo)) {
	ti := &TypeInfo{Name: name, T: reflect.TypeOf(v), Family: family, Top: true}
	for _, o := range opts {
		o(ti)
	}
	Types[name] = ti
	TypeList = append(TypeList, ti)
}

func twin(n string) func(*TypeInfo) { return func(t *TypeInfo) { t.Twin = n } }
func bad(t *TypeInfo)               { t.Bad = true }
func notTop(t *TypeInfo)            { t.Top = false }
func noProto(t *TypeInfo)           { t.NoProto = true }

func init() {
	reg("Wide", "F1", Wide{})
	reg("Ptrs", "F1", Ptrs{})
	reg("Zeros", "F1", Zeros{})
	reg("Pts", "F1", Pts{})
	reg("[]Pt", "F1", []Pt{})
	reg("[]Empty", "F1", []Empty{})
	reg("Inner", "F1", Inner{})
	reg("Small", "F1", Small{})
	reg("[]Inner", "F1", []Inner{}, notTop)
	reg("*Inner", "F1", (*Inner)(nil), notTop)
	reg("[]int", "F1", []int{})
	reg("[]string", "F1", []string{})
	reg("[]float64", "F1", []float64{})

	reg("Node", "F2", Node{})
	reg("*Node", "F2", (*Node)(nil), notTop)
	reg("[]*Node", "F2", []*Node{}, notTop)
	reg("map[string]*Node", "F2", map[string]*Node{}, notTop)
	reg("Tree", "F2", Tree{})
	reg("MapTree", "F2", MapTree{})
	reg("[]Tree", "F2", []Tree{}, notTop)

	reg("RA", "F3", RA{})
	reg("RB", "F3", RB{})
	reg("RC", "F3", RC{})
	reg("*RB", "F3", (*RB)(nil), notTop)
	reg("[]*RC", "F3", []*RC{}, notTop)
	reg("[]RA", "F3", []RA{}, notTop)
	reg("map[string]*RA", "F3", map[string]*RA{}, notTop)

	reg("Reading", "FD", Reading{})
	reg("Reading'", "FD", namesakeA())
	reg("Reading''", "FD", namesakeB())
	reg("RootA", "F4", RootA{})
	reg("RootB", "F4", RootB{})
	reg("RootC", "F4", RootC{})
	reg("Shared1", "F4", Shared1{})
	reg("Shared2", "F4", Shared2{})
	reg("*Shared1", "F4", (*Shared1)(nil), notTop)
	reg("[]Shared2", "F4", []Shared2{}, notTop)

	reg("Sym", "F5", Sym{}, twin("SymTwin"))
	reg("SymTwin", "F5t", SymTwin{})
	reg("SymBox", "F5", SymBox{}, twin("SymBoxTwin"))
	reg("SymBoxTwin", "F5t", SymBoxTwin{})

	reg("Maps", "F6", Maps{})
	reg("MapKS", "F6", MapKS{})
	reg("MapSI", "F6", MapSI{})
	reg("MapKV", "F6", MapKV{})
	reg("KeyS", "F6", KeyS{})

	reg("Nest", "FN", Nest{})
	reg("NestD", "FN", NestD{}, noProto)
	reg("OnlyMap", "FN", OnlyMap{})
	reg("[][]int", "FN", [][]int{})
	reg("map[string][]int", "FN", map[string][]int{})
	reg("IDs", "FN", IDs{})
	reg("Tags", "FN", Tags{})
	reg("[]null.Int", "FN", []null.Int{})
	reg("*[]string", "FN", (*[]string)(nil))

	reg("JDoc", "FJ", JDoc{})
	reg("JArr", "FJ", JArr{})
	reg("JNest", "FJ", JNest{})
	reg("[]any", "FJ", []any{})
	reg("map[string]any", "FJ", map[string]any{})

	reg("V0", "F8", V0{})
	reg("V1", "F8", V1{})
	reg("V2", "F8", V2{})
	reg("Sparse", "F8", Sparse{})
	reg("SparseNew", "F8", SparseNew{})

	reg("BadRec", "F9", BadRec{}, bad)
	reg("*BadRec", "F9", (*BadRec)(nil), bad, notTop)
	reg("[]*BadRec", "F9", []*BadRec{}, bad, notTop)
	reg("BadHolder", "F9", BadHolder{}, bad)
	reg("BadDup", "F9", BadDup{}, bad)
	reg("*BadDup", "F9", (*BadDup)(nil), bad, notTop)
	reg("BadNoTag", "F9", BadNoTag{}, bad)
	reg("[]*BadNoTag", "F9", []*BadNoTag{}, bad, notTop)
}

// Family returns the type names of a family in registration order.
func Family(f string) []string {
	var out []string
	for _, t := range TypeList {
		if t.Family == f {
			out = append(out, t.Name)
		}
	}
	return out
}

func Families() []string {
	seen := map[string]bool{}
	var out []string
	for _, t := range TypeList {
		if !seen[t.Family] {
			seen[t.Family] = true
			out = append(out, t.Family)
		}
	}
	sort.Strings(out)
	return out
}

// TopOK reports whether values of the type can be marshalled on their own
// under the configuration. With ProtoCompatibleArrays a slice of
// length-delimited elements has no framing outside a struct (documented on
// ProtoSliceWrapper), so such types are only used as fields there.
func TopOK(ti *TypeInfo, cfg InstCfg) bool {
	if !ti.Top || ti.Bad {
		return false
	}
	return ShapeOK(ti, cfg)
}

// ShapeOK is TopOK without the registry's Top flag: can plenc handle a value of
// this type on its own under cfg at all?
func ShapeOK(ti *TypeInfo, cfg InstCfg) bool {
	if ti.Bad {
		return false
	}
	if cfg.ProtoArrays && ti.NoProto {
		return false
	}
	t := ti.T
	for t.Kind() == reflect.Ptr {
		t = t.Elem()
	}
	if cfg.ProtoArrays && t.Kind() == reflect.Slice && t.Elem().Kind() != reflect.Uint8 && t.Elem().Kind() != reflect.Interface && !isPackedElem(t.Elem()) {
		return false
	}
	return true
}

// isPackedElem: slices of these element types are packed (one length-delimited
// run of varints / fixed-width values) in every configuration.
func isPackedElem(t reflect.Type) bool {
	if isScalarKind(t) {
		return true
	}
	for t.Kind() == reflect.Ptr {
		t = t.Elem()
	}
	if isNullType(t) {
		switch t.Name() {
		case "Int", "Bool", "Float":
			return true
		}
	}
	return false
}

// IsRecursive reports whether t can reach itself. plenc's Descriptor() of such
// a codec recurses without end (stack overflow, not recoverable), so the
// simulator never asks for it.
func IsRecursive(t reflect.Type) bool {
	return reaches(t, map[reflect.Type]bool{})
}

func reaches(t reflect.Type, onPath map[reflect.Type]bool) bool {
	switch t.Kind() {
	case reflect.Ptr, reflect.Slice, reflect.Array:
		return reaches(t.Elem(), onPath)
	case reflect.Map:
		return reaches(t.Key(), onPath) || reaches(t.Elem(), onPath)
	case reflect.Struct:
		if t == tTime {
			return false
		}
		if onPath[t] {
			return true
		}
		onPath[t] = true
		defer delete(onPath, t)
		for i := 0; i < t.NumField(); i++ {
			if reaches(t.Field(i).Type, onPath) {
				return true
			}
		}
	}
	return false
}

// F0: top-level values that are not structs
func init() {
	reg("[]byte", "F0", []byte{})
	reg("string", "F0", "")
	reg("int", "F0", int(0))
	reg("time", "F0", time.Time{})
	reg("MyBytes", "F0", MyBytes{})
	reg("[][]byte", "F0", [][]byte{})
}
