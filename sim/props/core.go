// Package props holds the simulated workloads, oracles and generators for the
// claimed properties.
package props

import (
	"encoding/hex"
	"encoding/json"
	"fmt"
	"reflect"
	"runtime"
	"strings"
	"sync"
	"unsafe"

	"github.com/philpearl/plenc/plenccodec"

	"verifsim/engine"
	"verifsim/world"
)

// Op is one operation of a simulated caller. It is pure data so that a
// scenario can be stored in a replay file.
type Op struct {
	Kind   string `json:"k"`
	Type   string `json:"t,omitempty"`
	Inst   int    `json:"i,omitempty"`
	VSeed  uint64 `json:"vs,omitempty"` // value generator seed
	VSize  int    `json:"vz,omitempty"` // value generator size budget
	Mut    uint64 `json:"mu,omitempty"` // if non-zero the generated value is then mutated with this seed (related values)
	Vocab  int    `json:"vo,omitempty"` // index+1 of the scenario vocabulary to draw strings from
	Shared int    `json:"sh,omitempty"` // index+1 of a scenario-level shared value
	Data   string `json:"d,omitempty"`  // hex input bytes
	Target int    `json:"tg,omitempty"` // 0 = fresh target, k = re-use target slot k of this task
	Buf    int    `json:"b,omitempty"`  // 0 = exact private copy, k = ring buffer k of this task
	Pat    string `json:"p,omitempty"`  // scribble pattern
	Hold   bool   `json:"h,omitempty"`  // keep the decoded value alive and re-check it later
	Self   bool   `json:"sf,omitempty"` // the input buffer is the []byte the target already holds (in := v.Payload; Unmarshal(in, &v))
	Arg    int    `json:"a,omitempty"`
}

type SharedVal struct {
	Type  string `json:"t"`
	VSeed uint64 `json:"vs"`
	VSize int    `json:"vz"`
}

// Scenario is one complete simulated run minus the schedule.
type Scenario struct {
	Prop      string          `json:"prop"`
	Seed      uint64          `json:"seed"`
	Index     int             `json:"index"`
	Insts     []world.InstCfg `json:"insts"`
	Tasks     [][]Op          `json:"tasks"`
	Shared    []SharedVal     `json:"shared,omitempty"`
	Vocabs    [][]string      `json:"vocabs,omitempty"`     // in files: see VocabsHex
	VocabsHex [][]string      `json:"vocabs_hex,omitempty"` // Vocabs as hex: vocabulary strings are arbitrary bytes, JSON strings are not
	Sites     []string        `json:"sites"`
	Policy    engine.Policy   `json:"policy"`
	PoolSeam  bool            `json:"pool_seam,omitempty"`
	PoolBias  int             `json:"pool_bias,omitempty"`
	Budget    int             `json:"budget,omitempty"`
	Warm      bool            `json:"warm,omitempty"`         // build the codecs single-threaded before the run
	SimReg    bool            `json:"sim_registry,omitempty"` // CodecForType operations go through the simulator-owned registry
	SchedSeed uint64          `json:"sched_seed"`
	Note      string          `json:"note,omitempty"`
}

// MarshalJSON writes the vocabularies as hex (a JSON string cannot hold bytes
// that are not UTF-8; it would silently replace them and the replay would
// generate other values than the run did).
func (sc Scenario) MarshalJSON() ([]byte, error) {
	type plain Scenario
	p := plain(sc)
	p.VocabsHex = nil
	for _, v := range sc.Vocabs {
		hv := make([]string, len(v))
		for i, s := range v {
			hv[i] = hex.EncodeToString([]byte(s))
		}
		p.VocabsHex = append(p.VocabsHex, hv)
	}
	p.Vocabs = nil
	return json.Marshal(p)
}

func (sc *Scenario) UnmarshalJSON(b []byte) error {
	type plain Scenario
	var p plain
	if err := json.Unmarshal(b, &p); err != nil {
		return err
	}
	if p.VocabsHex != nil {
		p.Vocabs = nil
		for _, hv := range p.VocabsHex {
			v := make([]string, len(hv))
			for i, s := range hv {
				raw, err := hex.DecodeString(s)
				if err != nil {
					return err
				}
				v[i] = string(raw)
			}
			p.Vocabs = append(p.Vocabs, v)
		}
		p.VocabsHex = nil
	}
	*sc = Scenario(p)
	return nil
}

// Violation describes one failed check.
type Violation struct {
	Prop   string `json:"property"`
	Kind   string `json:"kind"` // mismatch error-mismatch panic livelock deadlock race fatal hang leak alias
	Task   int    `json:"task"`
	OpIdx  int    `json:"op"`
	OpKind string `json:"op_kind"`
	Type   string `json:"type,omitempty"`
	Site   string `json:"site,omitempty"`
	Msg    string `json:"msg"`
}

// Class is what must stay the same while a failing run is minimised.
func (v *Violation) Class() string { return v.Kind + "/" + v.OpKind }

func (v *Violation) String() string {
	return fmt.Sprintf("%s task=%d op=%d(%s %s) %s", v.Kind, v.Task, v.OpIdx, v.OpKind, v.Type, v.Msg)
}

// Outcome of executing a scenario under one schedule.
type Outcome struct {
	Violations []*Violation
	Stats      engine.Stats
	Decisions  []engine.Dec
	Trace      []uint16
	Pairs      []uint32
	Probes     map[string]int
	OpsRun     int
	OpsByKind  map[string]int
	// ResultHash digests what every operation returned (error text, canonical
	// bytes, dumped values): a pure function of the scenario and the schedule
	// on a correct tree, whatever the process did before.
	ResultHash uint64
}

// ---------------------------------------------------------------------------
// prepared scenario

type prepOp struct {
	op       *Op
	ti       *world.TypeInfo
	val      reflect.Value // addressable value to marshal (marshal ops)
	data     []byte        // input bytes (unmarshal ops)
	expBytes []byte
	expErr   string
	expOK    bool
	expVal   reflect.Value // expected decoded value (independent memory)
	expDesc  string
	expNil   bool // Marshal returned nil bytes alone
	twinVal  reflect.Value
	twinEnc  []byte        // encoding of the same data through the non-interned twin type
	snap     reflect.Value // independent copy of val taken before anything ran
	phys     string        // world.Phys(val) taken before anything ran
	srcVal   reflect.Value // the value whose encoding data is (when known)
	mergeOK  bool          // the merge model applies to this op
}

type Prepared struct {
	sc         *Scenario
	ops        [][]*prepOp
	shared     []reflect.Value
	sharedPhys []string
	// Excluded counts operations whose solo run panicked (they cannot be used
	// as an oracle and are dropped at generation time).
	Excluded int
}

func typeInfo(name string) *world.TypeInfo {
	ti := world.Types[name]
	if ti == nil {
		panic(HarnessError{"unknown type " + name})
	}
	return ti
}

// HarnessError is panicked for trouble that is the harness's, not plenc's.
type HarnessError struct{ Msg string }

func (h HarnessError) Error() string { return "harness: " + h.Msg }

func (sc *Scenario) genValue(op *Op) reflect.Value {
	ti := typeInfo(op.Type)
	r := engine.PRNG{S: op.VSeed}
	o := world.GenOpts{Size: op.VSize}
	if op.Vocab > 0 {
		o.Vocab = sc.Vocabs[op.Vocab-1]
	}
	o.NonCanonical = op.Pat == "raw"
	if op.VSize > 60 {
		o.Fanout = op.VSize - 40 // records with dozens of elements in their first-level slices
	}
	v := world.Gen(ti.T, &r, o)
	if op.Mut != 0 {
		mr := engine.PRNG{S: op.Mut}
		world.Mutate(v, &mr, o)
	}
	return v
}

// soloMarshal marshals on a brand-new instance in a quiet world.
func soloMarshal(cfg world.InstCfg, ptr interface{}) (b []byte, errs string, panicked string) {
	defer func() {
		if r := recover(); r != nil {
			panicked = fmt.Sprint(r)
		}
	}()
	p := world.NewInstance(cfg)
	b, err := p.Marshal(nil, ptr)
	if err != nil {
		errs = err.Error()
	}
	return b, errs, ""
}

func soloUnmarshal(cfg world.InstCfg, t reflect.Type, data []byte) (v reflect.Value, errs string, panicked string) {
	engine.Install()
	engine.BeginSolo(1000 + 64*len(data))
	defer engine.EndSolo()
	defer func() {
		if r := recover(); r != nil {
			panicked = fmt.Sprint(r)
		}
	}()
	p := world.NewInstance(cfg)
	in := append(make([]byte, 0, len(data)), data...) // exact capacity, like the live run
	out := reflect.New(t)
	err := p.Unmarshal(in, out.Interface())
	if err != nil {
		errs = err.Error()
	}
	return world.Clone(out.Elem()), errs, ""
}

func descJSON(c plenccodec.Codec) (s string) {
	defer func() {
		if r := recover(); r != nil {
			s = "panic: " + fmt.Sprint(r)
		}
	}()
	d := c.Descriptor()
	b, _ := json.Marshal(&d)
	return string(b)
}

func soloCodec(cfg world.InstCfg, t reflect.Type) (desc string, errs string, panicked string) {
	defer func() {
		if r := recover(); r != nil {
			panicked = fmt.Sprint(r)
		}
	}()
	p := world.NewInstance(cfg)
	c, err := p.CodecForType(t)
	if err != nil {
		return "", err.Error(), ""
	}
	if world.IsRecursive(t) {
		return "recursive: descriptor not requested", "", ""
	}
	return descJSON(c), "", ""
}

// Prepare computes the solo expectations of every operation. With drop set
// (generation time) operations whose solo run panics are removed from the
// scenario; without it (replay) such an operation is a harness error.
func Prepare(sc *Scenario, drop bool) *Prepared {
	p := &Prepared{sc: sc}
	for _, sv := range sc.Shared {
		op := Op{Type: sv.Type, VSeed: sv.VSeed, VSize: sv.VSize}
		sv := sc.genValue(&op)
		if sc.Prop == "C11" {
			rr := engine.PRNG{S: engine.Mix(op.VSeed, 0x5A9E)}
			world.Reshape(sv, rr.Intn)
		}
		p.shared = append(p.shared, sv)
		p.sharedPhys = append(p.sharedPhys, world.Phys(sv))
	}
	for ti := range sc.Tasks {
		var kept []Op
		var pops []*prepOp
		for oi := range sc.Tasks[ti] {
			op := sc.Tasks[ti][oi]
			po, ok := p.prepareOp(&op)
			if !ok {
				if !drop {
					panic(HarnessError{fmt.Sprintf("solo run of task %d op %d (%s %s) panics: oracle unavailable", ti, oi, op.Kind, op.Type)})
				}
				p.Excluded++
				continue
			}
			kept = append(kept, op)
			pops = append(pops, po)
		}
		sc.Tasks[ti] = kept
		for i := range pops {
			pops[i].op = &sc.Tasks[ti][i]
		}
		p.ops = append(p.ops, pops)
	}
	return p
}

func (p *Prepared) prepareOp(op *Op) (*prepOp, bool) {
	sc := p.sc
	po := &prepOp{op: op}
	if op.Type != "" {
		po.ti = typeInfo(op.Type)
	}
	cfg := world.InstCfg{}
	if op.Inst < len(sc.Insts) {
		cfg = sc.Insts[op.Inst]
	}
	switch op.Kind {
	case "marshal", "marshalAppend":
		if op.Shared > 0 {
			po.val = p.shared[op.Shared-1]
			po.phys = p.sharedPhys[op.Shared-1]
		} else {
			po.val = sc.genValue(op)
			if sc.Prop == "C11" {
				rr := engine.PRNG{S: engine.Mix(op.VSeed, 0x5A9E)}
				world.Reshape(po.val, rr.Intn)
			}
			po.phys = world.Phys(po.val)
		}
		// solo on an independent clone so that the oracle cannot disturb the value
		cl := world.Clone(po.val)
		b, errs, pan := soloMarshal(cfg, cl.Addr().Interface())
		if pan != "" {
			return nil, false
		}
		po.expBytes, po.expErr, po.expNil = b, errs, b == nil
		po.snap = world.Clone(po.val)
		if po.ti.Twin != "" && errs == "" {
			tv := world.ConvertTo(po.val, typeInfo(po.ti.Twin).T)
			tb, terrs, tpan := soloMarshal(cfg, tv.Addr().Interface())
			if tpan == "" && terrs == "" {
				po.twinEnc = tb
			}
		}
	case "unmarshal", "unmarshalReuse":
		data, err := hex.DecodeString(op.Data)
		if err != nil {
			panic(HarnessError{"bad hex in scenario"})
		}
		po.data = data
		v, errs, pan := soloUnmarshal(cfg, po.ti.T, data)
		if pan != "" {
			return nil, false
		}
		po.expVal, po.expErr = v, errs
		if op.Target > 0 && op.VSeed != 0 && po.ti.Family == "FM" && errs == "" && op.Pat != "damaged" && op.Pat != "torn" {
			// merge model: only when the value behind the bytes is known and
			// its fresh round trip is the identity
			po.srcVal = sc.genValue(op)
			if ok, _ := world.Equal(po.srcVal, v); ok {
				po.mergeOK = true
			}
		}
		if po.ti.Twin != "" {
			tv, terrs, tpan := soloUnmarshal(cfg, typeInfo(po.ti.Twin).T, data)
			if tpan == "" && terrs == errs {
				po.twinVal = tv
			}
		}
	case "codec", "simreg":
		desc, errs, pan := soloCodec(cfg, po.ti.T)
		if pan != "" {
			return nil, false
		}
		po.expDesc, po.expErr = desc, errs
		if errs == "" && op.VSeed != 0 {
			// probe: marshal a value and decode it again through the codec
			po.val = sc.genValue(op)
			cl := world.Clone(po.val)
			b, merr, pan := soloMarshal(cfg, cl.Addr().Interface())
			if pan != "" || merr != "" {
				return nil, false
			}
			po.expBytes = b
			cb, err := world.Canon(po.ti.T, b)
			if err != nil {
				return nil, false
			}
			po.data = cb
			v, uerr, pan := soloUnmarshal(cfg, po.ti.T, cb)
			if pan != "" {
				return nil, false
			}
			po.expVal, po.expOK = v, uerr == ""
			if uerr != "" {
				return nil, false
			}
		}
	case "scribble", "recheck", "mutate", "nop", "reslice", "marshalTarget", "gc":
	case "fill":
		// the caller puts a value of its own making into the target it is about to
		// re-use: times in other zones, empty non-nil slices, spare capacity...
		po.val = sc.genValue(op)
		rr := engine.PRNG{S: engine.Mix(op.VSeed, 0xF111)}
		world.ReshapeAliased(po.val, rr.Intn)
	default:
		panic(HarnessError{"unknown op kind " + op.Kind})
	}
	return po, true
}

// ---------------------------------------------------------------------------
// execution

type liveVal struct {
	twin, twinExp reflect.Value // C19: the non-interned twin decoded from the same buffer at the same time, and its snapshot
	slot          int           // > 0: the value lives in re-used target slot `slot` (replaced on the next decode into it)
	ptr           reflect.Value // pointer to the decoded value
	exp           reflect.Value // expected (independent copy)
	op            int
	desc          string
}

type taskState struct {
	id      int
	x       *executor
	viol    []*Violation
	targets map[int]reflect.Value
	twins   map[int]reflect.Value // C19: the same slot for the non-interned twin type
	held    []heldVal             // what the caller still holds of earlier results
	results []keptResult          // C07: decoded values the task keeps until the end of the run
	keptNow reflect.Value         // shallow copy of the target's value taken just before the current re-use
	keptExp reflect.Value         // deep copy of the same
	bufs    map[int][]byte
	live    []liveVal
	out     []byte
	ops     int
	digest  uint64
	byKind  map[string]int
	probes  map[string]int
	aborted bool
}

type executor struct {
	prop  string
	prep  *Prepared
	regs  []*simRegistry // one simulator-owned registry per instance
	insts []world.API
	tasks []*taskState
	hooks PropHooks
}

// simRegistry is a simulator-owned codec registry handed to plenc through its
// exported seam (*Plenc).CodecForTypeRegistry. Its Load and StoreOrSwap yield
// to the scheduler themselves, so scenarios that build codecs through it keep
// full schedule control over the construction window even if a change to plenc
// dropped the instrumented yield points. Types with registered codecs (time,
// []byte, null types, JSON-any) are answered by the instance.
type simRegistry struct {
	m sync.Map
	p world.API
}

type simRegKey struct {
	t   reflect.Type
	tag string
}

var simRegSpecial = map[string]bool{"time.Time": true, "[]uint8": true, "null.Int": true, "null.String": true, "null.Bool": true, "null.Float": true, "null.Time": true, "map[string]interface {}": true, "[]interface {}": true}

func (r *simRegistry) Load(typ reflect.Type, tag string) plenccodec.Codec {
	engine.Yield("simreg.load")
	if v, ok := r.m.Load(simRegKey{typ, tag}); ok {
		return v.(plenccodec.Codec)
	}
	if tag == "" && simRegSpecial[typ.String()] {
		if c, err := r.p.CodecForType(typ); err == nil {
			return c
		}
	}
	return nil
}

func (r *simRegistry) StoreOrSwap(typ reflect.Type, tag string, c plenccodec.Codec) plenccodec.Codec {
	engine.Yield("simreg.storeOrSwap")
	v, _ := r.m.LoadOrStore(simRegKey{typ, tag}, c)
	return v.(plenccodec.Codec)
}

// rules says which observations are violations of which property. Each check
// only reports what its own property states; what belongs to another property
// is counted as a probe instead, so that a change which breaks only that other
// property does not raise an alarm here.
type rules struct {
	solo     bool // results must equal the solo run (C07; C10 for fresh targets)
	panics   bool // a panic on valid data is a violation (C07)
	liveness bool // livelock / deadlock of the run is a violation (C07, C19)
	warm     bool // codecs are built single-threaded before the run: first-use races are C07's
}

var propRules = map[string]rules{
	"C07": {solo: true, panics: true, liveness: true},
	"C10": {solo: true, warm: true},
	"C11": {warm: true},
	"C19": {liveness: true, warm: true},
}

// PropHooks lets a property add op kinds and checks to the shared executor.
type PropHooks interface {
	// RunOp executes a property-specific op. handled=false falls through to the
	// shared implementation.
	RunOp(t *taskState, idx int, po *prepOp) (handled bool)
}

func (t *taskState) fail(idx int, po *prepOp, kind, msg string) {
	if kind == "alias" && t.x.prop != "C11" && t.x.prop != "C19" {
		// aliasing and mutation of caller memory are C11's (for interned strings C19's) to report
		t.probe("other_property:alias")
		return
	}
	v := &Violation{Prop: t.x.prop, Kind: kind, Task: t.id, OpIdx: idx, OpKind: po.op.Kind, Type: po.op.Type, Msg: msg}
	t.viol = append(t.viol, v)
}

func (t *taskState) probe(name string) { t.probes[name]++ }

// note folds an operation's observable result into the task's digest.
func (t *taskState) note(parts ...string) {
	h := t.digest
	if h == 0 {
		h = 1469598103934665603
	}
	for _, p := range parts {
		for i := 0; i < len(p); i++ {
			h = (h ^ uint64(p[i])) * 1099511628211
		}
		h = (h ^ 0xff) * 1099511628211
	}
	t.digest = h
}

func (t *taskState) noteBytes(ty reflect.Type, b []byte, err error) {
	cb, cerr := world.Canon(ty, b)
	if cerr != nil {
		// not a well-formed encoding of the type (another property's problem): the
		// raw bytes may depend on map iteration order, their number does not
		t.note("bytes-unparsed", fmt.Sprint(len(b)), errText(err))
		return
	}
	t.note("bytes", string(cb), errText(err))
}

func (t *taskState) noteValue(v reflect.Value, err error) {
	if err != nil {
		t.note("value-error", errText(err))
		return
	}
	t.note("value", world.Dump(v))
}

func panicSite(stack string) string {
	// first plenc frame of the stack
	for _, line := range strings.Split(stack, "\n") {
		if strings.HasPrefix(line, "github.com/philpearl/plenc") && !strings.Contains(line, "verif") {
			if i := strings.LastIndex(line, "("); i > 0 {
				line = line[:i]
			}
			return strings.TrimPrefix(line, "github.com/philpearl/plenc")
		}
	}
	return ""
}

func stackString() string {
	buf := make([]byte, 16<<10)
	n := runtime.Stack(buf, false)
	return string(buf[:n])
}

func (t *taskState) run() {
	ops := t.x.prep.ops[t.id]
	for i, po := range ops {
		engine.Yield("op.begin")
		t.runOne(i, po)
		if t.aborted {
			return
		}
	}
	if len(t.live) > 0 && len(ops) > 0 {
		t.recheck(len(ops)-1, ops[len(ops)-1], "by the end of the run")
	}
	t.recheckResults()
}

func (t *taskState) runOne(i int, po *prepOp) {
	defer func() {
		if r := recover(); r != nil {
			if _, ok := r.(engine.AbortPanic); ok {
				t.aborted = true
				return
			}
			if he, ok := r.(HarnessError); ok {
				panic(he)
			}
			if !propRules[t.x.prop].panics {
				t.probe("other_property:panic_on_valid_data")
				return
			}
			st := stackString()
			v := &Violation{Prop: t.x.prop, Kind: "panic", Task: t.id, OpIdx: i, OpKind: po.op.Kind, Type: po.op.Type,
				Site: panicSite(st), Msg: fmt.Sprintf("panic: %v at %s", r, panicSite(st))}
			t.viol = append(t.viol, v)
		}
	}()
	t.ops++
	t.byKind[po.op.Kind]++
	if t.x.hooks != nil && t.x.hooks.RunOp(t, i, po) {
		return
	}
	t.sharedOp(i, po)
}

func errText(err error) string {
	if err == nil {
		return ""
	}
	return err.Error()
}

func (t *taskState) inst(po *prepOp) world.API { return t.x.insts[po.op.Inst] }

func (t *taskState) sharedOp(i int, po *prepOp) {
	switch po.op.Kind {
	case "marshal":
		p := t.inst(po)
		b, err := p.Marshal(nil, po.val.Addr().Interface())
		t.noteBytes(po.ti.T, b, err)
		t.checkBytes(i, po, b, err)
		if err == nil {
			if po.twinEnc != nil && !world.SameEncoding(typeInfo(po.ti.Twin).T, b, po.twinEnc) {
				t.fail(i, po, "mismatch", fmt.Sprintf("encoding %s differs from the non-interned twin's %s", hexShort(b), hexShort(po.twinEnc)))
			}
			if ok, path := world.Equal(po.val, po.snap); !ok {
				t.fail(i, po, "alias", "Marshal modified the value it was given, at "+path)
			} else if ph := world.Phys(po.val); ph != po.phys {
				t.fail(i, po, "alias", "Marshal modified the value it was given (slice headers, spare capacity or pointers): "+world.DiffPhys(po.phys, ph))
			} else if t.x.prop == "C11" {
				t.aliasCheck(i, po, b)
			}
		}
	case "unmarshal":
		t.unmarshalOp(i, po)
	case "marshalAppend":
		t.marshalAppendOp(i, po)
	case "scribble":
		t.scribbleOp(i, po)
	case "recheck":
		t.recheck(i, po, "after later operations")
	case "marshalTarget":
		t.marshalTargetOp(i, po)
	case "gc":
		// an injected event: a full garbage collection at this point of the history (memory
		// that only the library still references, or that it hides from the collector, is
		// reclaimed now and handed out again by the allocations that follow)
		runtime.GC()
		t.probe("fault:gc_cycle")
	case "fill":
		tgt := reflect.New(po.ti.T)
		tgt.Elem().Set(po.val)
		t.targets[po.op.Target] = tgt
		delete(t.twins, po.op.Target)
		t.probe("fault:target_filled_by_the_caller")
	case "reslice":
		if tgt, ok := t.targets[po.op.Target]; ok {
			r := engine.PRNG{S: uint64(po.op.Arg) + 7}
			if world.Reslice(tgt.Elem(), r.Intn) > 0 {
				t.probe("fault:target_slices_cut_keeping_capacity")
			}
			// C19: the twin target (same shape without the option) is cut the same way
			if tw, ok := t.twins[po.op.Target]; ok {
				r2 := engine.PRNG{S: uint64(po.op.Arg) + 7}
				world.Reslice(tw.Elem(), r2.Intn)
			}
			// the caller changed the value itself: what it holds now is the new reference
			for k := range t.live {
				if t.live[k].slot == po.op.Target && t.live[k].ptr == tgt {
					t.live[k].exp = world.Clone(tgt.Elem())
					if t.live[k].twin.IsValid() {
						t.live[k].twinExp = world.Clone(t.live[k].twin.Elem())
					}
				}
			}
		}
	case "codec":
		t.codecOp(i, po)
	case "simreg":
		p := t.inst(po)
		c, err := p.CodecForTypeRegistry(t.x.regs[po.op.Inst], po.ti.T, "")
		if e := errText(err); e != po.expErr {
			t.fail(i, po, "error-mismatch", fmt.Sprintf("CodecForTypeRegistry error %q, alone it is %q", e, po.expErr))
		} else if err == nil {
			t.useCodec(i, po, c)
		}
	case "nop":
	default:
		panic(HarnessError{"op kind not handled: " + po.op.Kind})
	}
}

func (t *taskState) checkBytes(i int, po *prepOp, b []byte, err error) {
	if t.x.prop != "C07" && t.x.prop != "C10" {
		// what Marshal returns is not what C11 / C19 state. (C10: "re-used ...
		// instances never leak stale state ... nothing decoded or encoded earlier
		// can influence a later result" is read as covering later encodes too.)
		if errText(err) != po.expErr || !world.SameEncoding(po.ti.T, b, po.expBytes) {
			t.probe("other_property:encoding_differs_from_solo")
		}
		return
	}
	if e := errText(err); e != po.expErr {
		t.fail(i, po, "error-mismatch", fmt.Sprintf("Marshal error %q, alone it is %q", e, po.expErr))
		return
	}
	if !world.SameEncoding(po.ti.T, b, po.expBytes) {
		t.fail(i, po, "mismatch", fmt.Sprintf("Marshal returned %d bytes %s, alone it returns %d bytes %s", len(b), hexShort(b), len(po.expBytes), hexShort(po.expBytes)))
	}
}

func (t *taskState) checkDecoded(i int, po *prepOp, out reflect.Value, err error) {
	if !propRules[t.x.prop].solo {
		if errText(err) != po.expErr {
			t.probe("other_property:error_differs_from_solo")
		} else if err == nil {
			if ok, _ := world.Equal(out.Elem(), po.expVal); !ok {
				t.probe("other_property:value_differs_from_solo")
			}
		}
		return
	}
	if e := errText(err); e != po.expErr {
		t.fail(i, po, "error-mismatch", fmt.Sprintf("Unmarshal error %q, alone it is %q", e, po.expErr))
		return
	}
	if err != nil {
		return
	}
	if ok, path := world.Equal(out.Elem(), po.expVal); !ok {
		t.fail(i, po, "mismatch", "decoded value differs from the solo decode at "+path)
		return
	}
	// the caller keeps the result; it must still be what was returned when the run ends
	// (somebody else's later call must not be able to change it)
	if t.x.prop == "C07" && len(t.results) < 64 {
		t.results = append(t.results, keptResult{i: i, po: po, out: out})
	}
}

type keptResult struct {
	i    int
	po   *prepOp
	out  reflect.Value
	snap reflect.Value // if valid: a deep copy taken when Unmarshal returned (else po.expVal is the reference)
}

// recheckResults: every decoded value a task still holds equals what its call
// would have returned alone - also after all the other calls have run.
func (t *taskState) recheckResults() {
	for _, k := range t.results {
		ref := k.po.expVal
		if k.snap.IsValid() {
			ref = k.snap
		}
		if ok, path := world.Equal(k.out.Elem(), ref); !ok {
			t.fail(k.i, k.po, "mismatch", "a decoded value changed after Unmarshal had returned it (other calls ran in between): at "+path)
			return
		}
	}
}

func hexShort(b []byte) string {
	if len(b) > 48 {
		return hex.EncodeToString(b[:48]) + "..."
	}
	return hex.EncodeToString(b)
}

// codecOp: CodecForType, compared with the solo result; then the returned
// codec is used directly the way Marshal / Unmarshal use it.
func (t *taskState) codecOp(i int, po *prepOp) {
	p := t.inst(po)
	c, err := p.CodecForType(po.ti.T)
	if e := errText(err); e != po.expErr {
		t.fail(i, po, "error-mismatch", fmt.Sprintf("CodecForType error %q, alone it is %q", e, po.expErr))
		return
	}
	if err != nil {
		return
	}
	t.useCodec(i, po, c)
}

func (t *taskState) useCodec(i int, po *prepOp, c plenccodec.Codec) {
	if world.IsRecursive(po.ti.T) {
		// Descriptor() of a recursive type never returns; not requested
	} else if d := descJSON(c); d != po.expDesc {
		t.fail(i, po, "mismatch", fmt.Sprintf("Descriptor of the returned codec differs from the solo one: %s vs %s", short(d), short(po.expDesc)))
		return
	}
	if !po.val.IsValid() {
		return
	}
	// encode like Marshal does
	ptr := unsafe.Pointer(po.val.Addr().Pointer())
	if po.ti.T.Kind() == reflect.Map {
		ptr = *(*unsafe.Pointer)(ptr)
	}
	var b []byte
	if !c.Omit(ptr) {
		b = c.Append(make([]byte, 0, c.Size(ptr, nil)), ptr, nil)
	}
	t.noteBytes(po.ti.T, b, nil)
	if !world.SameEncoding(po.ti.T, b, po.expBytes) {
		t.fail(i, po, "mismatch", fmt.Sprintf("codec.Append gives %s, alone %s", hexShort(b), hexShort(po.expBytes)))
	}
	// decode like Unmarshal does
	out := reflect.New(po.ti.T)
	in := append([]byte(nil), po.data...)
	_, err := c.Read(in, unsafe.Pointer(out.Pointer()), c.WireType())
	t.noteValue(out.Elem(), err)
	if err != nil {
		t.fail(i, po, "error-mismatch", fmt.Sprintf("codec.Read error %q, alone none", err))
		return
	}
	if ok, path := world.Equal(out.Elem(), po.expVal); !ok {
		t.fail(i, po, "mismatch", "codec.Read value differs from the solo decode at "+path)
	}
}

func short(s string) string {
	if len(s) > 160 {
		return s[:160] + "..."
	}
	return s
}

// Execute runs a prepared scenario under a schedule. forced == nil means the
// scenario's policy and SchedSeed decide.
func Execute(prep *Prepared, hooks PropHooks, forced []engine.Dec, useForced bool) *Outcome {
	sc := prep.sc
	x := &executor{prop: sc.Prop, prep: prep, hooks: hooks}
	for _, cfg := range sc.Insts {
		in := world.NewInstance(cfg)
		x.insts = append(x.insts, in)
		x.regs = append(x.regs, &simRegistry{p: in})
	}
	if propRules[sc.Prop].warm || sc.Warm {
		// first use happens here, single-threaded, outside the simulation
		for _, ops := range prep.ops {
			for _, po := range ops {
				if po.ti != nil && !po.ti.Bad {
					func() {
						defer func() { recover() }()
						x.insts[po.op.Inst].CodecForType(po.ti.T)
						if po.ti.Twin != "" {
							x.insts[po.op.Inst].CodecForType(typeInfo(po.ti.Twin).T)
						}
					}()
				}
			}
		}
	}
	n := len(sc.Tasks)
	fns := make([]func(), n)
	for i := 0; i < n; i++ {
		ts := &taskState{id: i, x: x, targets: map[int]reflect.Value{}, twins: map[int]reflect.Value{}, bufs: map[int][]byte{}, byKind: map[string]int{}, probes: map[string]int{}}
		x.tasks = append(x.tasks, ts)
		fns[i] = ts.run
	}
	sim := engine.New(n, engine.Options{
		Seed: sc.SchedSeed, Policy: sc.Policy, Sites: sc.Sites, Forced: forced, UseForce: useForced,
		Budget: sc.Budget, PoolSeam: sc.PoolSeam, PoolBias: sc.PoolBias,
	})
	sim.Run(fns)
	// every task is done: what each of them still holds must be what it was given
	for _, ts := range x.tasks {
		if !ts.aborted && len(ts.viol) == 0 {
			ts.recheckResults()
		}
	}
	out := &Outcome{Stats: sim.St, Decisions: sim.Decisions(), Trace: sim.Trace(), Pairs: sim.Pairs, Probes: map[string]int{}, OpsByKind: map[string]int{}}
	for i, ts := range x.tasks {
		out.Violations = append(out.Violations, ts.viol...)
		out.ResultHash = engine.Mix(out.ResultHash, uint64(i), ts.digest)
		out.OpsRun += ts.ops
		for k, v := range ts.byKind {
			out.OpsByKind[k] += v
		}
		for k, v := range ts.probes {
			out.Probes[k] += v
		}
		if r := sim.TaskPanic(i); r != nil {
			if he, ok := r.(HarnessError); ok {
				panic(he)
			}
			out.Violations = append(out.Violations, &Violation{Prop: sc.Prop, Kind: "panic", Task: i, OpIdx: -1, OpKind: "task", Msg: fmt.Sprint(r)})
		}
	}
	abort := sim.St.Abort
	if !propRules[sc.Prop].liveness && abort != engine.AbortNone {
		out.Probes["other_property:run_aborted"]++
		abort = engine.AbortNone
	}
	switch abort {
	case engine.AbortBudget:
		out.Violations = append(out.Violations, &Violation{Prop: sc.Prop, Kind: "livelock", Task: -1, OpIdx: -1, OpKind: "run", Msg: fmt.Sprintf("step budget exceeded after %d yields: some operation does not return", sim.St.Steps)})
	case engine.AbortDeadlock:
		out.Violations = append(out.Violations, &Violation{Prop: sc.Prop, Kind: "deadlock", Task: -1, OpIdx: -1, OpKind: "run", Msg: "every remaining task waits for a lock that no running task holds"})
	}
	return out
}
