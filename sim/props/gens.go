package props

import (
	"encoding/hex"
	"fmt"
	"reflect"

	"verifsim/engine"
	"verifsim/world"
)

var internSites = []string{"intern.miss", "intern.locked", "intern.publish", "op.begin", "auto.atomic", "auto.lock", "auto.call", "auto.spin"}
var encodeSites = []string{"struct.size", "map.size", "map.append", "slice.size", "slice.encode", "json.size", "json.encode", "other"}

var allDecodeSites = []string{"map.entry", "map.key", "map.value", "struct.read", "struct.append", "slice.elem", "slice.append", "time.read", "json.map", "json.array", "json.kv", "slice.varint"}

var vocabPool = []string{"", "a", "b", "ab", "abc", "abd", "abcd", "a\x00", "\x00", "\xff\xfe", "\x80", "prefix-common-1", "prefix-common-2", "prefix-common-", "prefix-common-12", "USD", "EUR", "GBP", "status:ok", "status:failed", "héllo", "日本語", "x", "it’s", "a–b…", "“q”"}

// collidingPairs are values that collide under weak keys an interning table
// might be tempted to use: well-known 32-bit FNV-1a collisions, same length +
// same first and last byte, same prefix / suffix, case and trailing-zero twins.
var collidingPairs = [][2]string{
	{"costarring", "liquid"}, {"declinate", "macallums"}, {"altarage", "zinke"}, {"altarages", "zinkes"},
	{"abcd", "abxd"}, {"a-long-key-1-z", "a-long-key-2-z"}, {"xx", "x\x00x"}, {"Key", "key"}, {"ab", "ab\x00"},
	{"0123456789abcdef0", "0123456789abcdef1"}, {"tail-a", "head-a"},
}

func makeVocab(r *engine.PRNG) []string {
	n := 3 + r.Intn(10)
	var v []string
	if r.Intn(2) == 0 {
		// both members of a colliding pair, in either order
		pr := collidingPairs[r.Intn(len(collidingPairs))]
		if r.Intn(2) == 0 {
			pr[0], pr[1] = pr[1], pr[0]
		}
		v = append(v, pr[0], pr[1])
	}
	if r.Intn(3) == 0 {
		// a family of bit-neighbours: one string of a length around the sizes at
		// which a table might switch representation (machine words, small
		// buffers) and its eight variants with one bit of one byte flipped. Any
		// key that packs or truncates the bytes loses some bit of some byte.
		ls := []int{1, 2, 3, 4, 5, 7, 8, 9, 15, 16, 17, 24, 31, 32, 33}
		l := ls[r.Intn(len(ls))]
		base := make([]byte, l)
		for j := range base {
			base[j] = byte('a' + r.Intn(26))
		}
		pos := l - 1
		switch r.Intn(4) {
		case 0:
			pos = 0
		case 1:
			pos = r.Intn(l)
		}
		fam := []string{string(base)}
		for bit := 0; bit < 8; bit++ {
			b := append([]byte(nil), base...)
			b[pos] ^= 1 << uint(bit)
			fam = append(fam, string(b))
		}
		// in a PRNG-drawn order
		for i := len(fam) - 1; i > 0; i-- {
			j := r.Intn(i + 1)
			fam[i], fam[j] = fam[j], fam[i]
		}
		v = append(v, fam...)
		n = 1 + r.Intn(3)
	}
	if r.Intn(8) == 0 {
		// long values around the sizes at which buffers, slabs and length prefixes
		// change: one value, the same with its last byte changed, and one byte shorter
		ls := []int{127, 128, 255, 256, 257, 1023, 1024, 1025, 4095, 4096, 4097, 8192, 16383, 16384, 65535, 65536, 65537}
		l := ls[r.Intn(len(ls))]
		b := make([]byte, l)
		for j := range b {
			b[j] = byte('A' + (j*7+l)%53)
		}
		v = append(v, string(b), string(b[:l-1]))
		b2 := append([]byte(nil), b...)
		b2[l-1] ^= 1
		v = append(v, string(b2))
	}
	for i := 0; i < n; i++ {
		switch r.Intn(5) {
		case 0:
			b := make([]byte, 1+r.Intn(6))
			for j := range b {
				b[j] = byte(r.Next())
			}
			v = append(v, string(b))
		case 1:
			v = append(v, fmt.Sprintf("sym-%d", r.Intn(200)))
		default:
			v = append(v, vocabPool[r.Intn(len(vocabPool))])
		}
	}
	return v
}

var scribblePats = []string{"00", "ff", "inc", "rand"}

// decodeOp builds an unmarshal op whose bytes are the canonical solo encoding
// of a generated value.
func decodeOp(sc *Scenario, r *engine.PRNG, cfg world.InstCfg, tn string, size int, vocab int) (Op, bool) {
	op := Op{Kind: "unmarshal", Type: tn, VSeed: r.Next() | 1, VSize: size, Vocab: vocab}
	if r.Intn(12) == 0 && !cfg.Default {
		// written by an instance with the other array format (plenc reads the protobuf
		// repeated form into default slices and vice versa): a writer the reader is
		// documented to be compatible with, judged by the model-free oracles
		wcfg := cfg
		wcfg.ProtoArrays = !wcfg.ProtoArrays
		if world.ShapeOK(typeInfo(tn), wcfg) {
			if d, ok := encodeFor(sc, wcfg, &op); ok {
				op.Data, op.Pat = d, "damaged"
				return op, true
			}
		}
	}
	d, ok := encodeFor(sc, cfg, &op)
	if !ok {
		return op, false
	}
	op.Data = d
	foreignWriter(r, &op)
	return op, true
}

// foreignWriter: one record in eight arrives as another writer of the same wire
// format might have written it - the fields of struct bodies and map entries
// in a different order. The reader must cope; what it decodes is whatever the
// same call gives alone (model-based oracles are not applied: plenc documents
// no meaning for, e.g., a map entry whose value precedes its key).
func foreignWriter(r *engine.PRNG, op *Op) {
	if r.Intn(8) != 0 {
		return
	}
	raw, err := hex.DecodeString(op.Data)
	if err != nil {
		return
	}
	if out, changed := world.PermuteFields(typeInfo(op.Type).T, raw, r.Intn, r.Intn(2) == 0); changed {
		op.Data = hex.EncodeToString(out)
		op.Pat = "damaged"
	}
}

// relatedDecodeOp: like decodeOp but the value is a mutation of the value
// with seed base (same keys, zero over non-zero, shorter / longer slices).
func relatedDecodeOp(sc *Scenario, r *engine.PRNG, cfg world.InstCfg, tn string, base uint64, size int, vocab int) (Op, bool) {
	op := Op{Kind: "unmarshal", Type: tn, VSeed: base, VSize: size, Vocab: vocab, Mut: r.Next() | 1}
	if sc.Prop == "C10" && r.Intn(5) == 0 {
		op.Pat = "raw" // also values plenc normalises: pointer slices whose entries are all nil
	}
	d, ok := encodeFor(sc, cfg, &op)
	if !ok {
		return op, false
	}
	op.Data = d
	return op, true
}

// concatOp: two valid records of the same struct type written one after the
// other are a valid record too (protobuf merge semantics): fields occur twice.
func concatOp(sc *Scenario, r *engine.PRNG, cfg world.InstCfg, tn string, size int, vocab int) (Op, bool) {
	if typeInfo(tn).T.Kind() != reflect.Struct {
		return Op{}, false
	}
	a, ok1 := decodeOp(sc, r, cfg, tn, size, vocab)
	b, ok2 := relatedDecodeOp(sc, r, cfg, tn, a.VSeed, size, vocab)
	if !ok1 || !ok2 {
		return Op{}, false
	}
	foreign := a.Pat == "damaged"
	a.Data += b.Data
	a.VSeed = 0 // the bytes are no longer the encoding of one known value
	a.Pat = "concat"
	if foreign {
		// one half came from a foreign writer (fields in another order): plenc may walk
		// such a record differently from its framing, only model-free oracles apply
		a.Pat = "damaged"
	}
	return a, true
}

// ---------------------------------------------------------------------------
// C19

var c19Types = []string{"Sym", "Sym", "SymBox", "SymBox"}

func GenC19(seed uint64, idx int) *Scenario {
	r := engine.PRNG{S: engine.Mix(seed, 0xC19, uint64(idx))}
	cfg := pickCfg(&r)
	nt := 1 + r.Intn(4)
	if r.Intn(12) == 0 {
		nt = 5 + r.Intn(2)
	}
	sc := &Scenario{Prop: "C19", Seed: seed, Index: idx, Insts: []world.InstCfg{cfg}, PoolSeam: true, PoolBias: 50, SchedSeed: r.Next()}
	sc.Vocabs = [][]string{makeVocab(&r)}
	mainType := c19Types[r.Intn(len(c19Types))]
	big := r.Intn(40) == 0
	if big {
		// a long stream with many distinct values: the table grows into the
		// hundreds (a size cap, eviction or re-hash bug needs that)
		n := 300 + r.Intn(900)
		v := make([]string, n)
		for i := range v {
			v[i] = fmt.Sprintf("w-%d-%d", i, r.Intn(10))
		}
		sc.Vocabs = [][]string{v}
		mainType = "Sym"
		if nt > 2 {
			nt = 2
		}
		sc.Note = "big-table"
		sc.Budget = 400000
	}
	// and half of those go into the thousands: records that carry dozens of values for the same
	// field each (a table that compacts, re-hashes or changes representation at 1024 or 2048
	// entries has to get there, with values that recur)
	huge := big && r.Intn(4) == 0
	if huge {
		n := 1400 + r.Intn(1400)
		v := make([]string, n)
		for i := range v {
			v[i] = fmt.Sprintf("w-%d-%d", i, r.Intn(10))
		}
		sc.Vocabs = [][]string{v}
		mainType = "SymBox"
		nt = 1
		sc.Note = "huge-table"
		sc.Budget = 4000000 // yields: a hundred records of a hundred elements each
	}
	for t := 0; t < nt; t++ {
		nops := 3 + r.Intn(6)
		if big {
			nops = 150 + r.Intn(250)
		}
		if huge {
			nops = 45 + r.Intn(40)
		}
		var ops []Op
		for len(ops) < nops {
			tn := mainType
			if !huge && r.Intn(4) == 0 {
				tn = c19Types[r.Intn(len(c19Types))]
			}
			if r.Intn(40) == 0 {
				ops = append(ops, Op{Kind: "gc"})
			}
			switch k := r.Intn(10); {
			case k < 6:
				var op Op
				var ok bool
				if huge {
					// VSize above 60 makes the top-level slice of the record that long (genValue)
					op, ok = decodeOp(sc, &r, cfg, tn, 80+r.Intn(60), 1)
					if !ok {
						nops--
						continue
					}
					op.Buf = 1 + r.Intn(2)
					op.Hold = r.Intn(5) == 0
					ops = append(ops, op)
					continue
				}
				switch r.Intn(6) {
				case 0:
					op, ok = concatOp(sc, &r, cfg, tn, 2+r.Intn(10), 1)
				case 1, 2:
					// re-used target (and its twin): related values so that keys and fields overlap
					op, ok = relatedDecodeOp(sc, &r, cfg, tn, slotSeed(seed, idx, t, tn), 2+r.Intn(14), 1)
					op.Target = 1
					if r.Intn(4) == 0 {
						// the caller first shortens strings and slices of the value it re-uses
						ops = append(ops, Op{Kind: "reslice", Target: 1, Arg: r.Intn(1000)})
					}
					if r.Intn(4) == 0 {
						op.Mut = 0
						op.Data, ok = encodeFor(sc, cfg, &op)
					}
				default:
					op, ok = decodeOp(sc, &r, cfg, tn, 2+r.Intn(14), 1)
				}
				if !ok {
					nops--
					continue
				}
				op.Buf = 1 + r.Intn(2)
				op.Hold = r.Intn(5) != 0
				ops = append(ops, op)
			case k < 8:
				ops = append(ops, Op{Kind: "scribble", Buf: 1 + r.Intn(2), Pat: scribblePats[r.Intn(len(scribblePats))], Arg: r.Intn(1000)})
			case k < 9:
				ops = append(ops, Op{Kind: "marshal", Type: tn, VSeed: r.Next() | 1, VSize: 2 + r.Intn(14), Vocab: 1})
			default:
				ops = append(ops, Op{Kind: "recheck"})
			}
		}
		sc.Tasks = append(sc.Tasks, ops)
	}
	sc.Sites = pickSites(&r, internSites, append(append([]string(nil), buildSites...), allDecodeSites...), []int{0, 0, 25, 60}[r.Intn(4)])
	sc.Policy = pickPolicy(&r, nt)
	if sc.Policy.Kind == "stall" {
		sc.Policy.StallAt = 1 + r.Intn(12)
	}
	return sc
}

// C19SweepJobs: ordered pairs (decode a record with a new string, decode a
// record with the same or a different string), one preemption at every yield of
// the first, with only the intern sites enabled.
func C19SweepJobs(seed uint64, quick bool) []SweepJob {
	r := engine.PRNG{S: engine.Mix(seed, 0x195EE9)}
	var jobs []SweepJob
	n := 60
	if !quick {
		n = 400
	}
	cfgs := []world.InstCfg{{}, {ProtoArrays: true}, {Default: true}}
	for j := 0; j < n; j++ {
		cfg := cfgs[r.Intn(len(cfgs))]
		vocab := makeVocab(&r)
		if r.Intn(2) == 0 {
			vocab = vocab[:1+r.Intn(2)] // tiny vocabulary: both operations insert the same new string
		}
		sc := &Scenario{Vocabs: [][]string{vocab}}
		tn := []string{"Sym", "SymBox"}[r.Intn(2)]
		a, ok1 := decodeOp(sc, &r, cfg, tn, 2+r.Intn(8), 1)
		b, ok2 := decodeOp(sc, &r, cfg, tn, 2+r.Intn(8), 1)
		if !ok1 || !ok2 {
			continue
		}
		a.Buf, a.Hold, b.Buf, b.Hold = 1, true, 1, true
		jobs = append(jobs, SweepJob{Prop: "C19", Cfg: cfg, A: a, B: b, Sites: internSites, Vocabs: [][]string{vocab}})
	}
	return jobs
}

// ---------------------------------------------------------------------------
// C11

var c11Types = []string{"MNamed", "Ptrs", "Wide", "Wide", "Inner", "Sym", "SymBox", "Maps", "MapKS", "JDoc", "V2", "[]byte", "string", "MyBytes", "[][]byte", "Node", "[]string", "Nest", "Tags", "JArr", "JNest", "[]any", "MapKV"}
var c11StructTypes = []string{"Wide", "Inner", "Sym", "SymBox", "Maps", "JDoc", "V2", "Node", "Small"}

func GenC11(seed uint64, idx int) *Scenario {
	r := engine.PRNG{S: engine.Mix(seed, 0xC11, uint64(idx))}
	cfg := pickCfg(&r)
	nt := 1 + r.Intn(3)
	sc := &Scenario{Prop: "C11", Seed: seed, Index: idx, Insts: []world.InstCfg{cfg}, PoolSeam: true, PoolBias: 50, SchedSeed: r.Next()}
	sc.Vocabs = [][]string{makeVocab(&r)}
	if r.Intn(3) == 0 {
		tn := c11StructTypes[r.Intn(len(c11StructTypes))]
		sc.Shared = append(sc.Shared, SharedVal{Type: tn, VSeed: r.Next() | 1, VSize: 4 + r.Intn(16)})
	}
	for t := 0; t < nt; t++ {
		nops := 3 + r.Intn(6)
		var ops []Op
		for len(ops) < nops {
			tn := c11Types[r.Intn(len(c11Types))]
			if !world.ShapeOK(typeInfo(tn), cfg) {
				continue
			}
			vocab := 0
			if r.Intn(2) == 0 {
				vocab = 1
			}
			switch k := r.Intn(12); {
			case k < 5:
				var op Op
				var ok bool
				switch r.Intn(6) {
				case 0:
					op, ok = concatOp(sc, &r, cfg, tn, 2+r.Intn(12), vocab)
				case 1, 2:
					// re-used target: related values so that map keys and fields overlap
					op, ok = relatedDecodeOp(sc, &r, cfg, tn, slotSeed(seed, idx, t, tn), 2+r.Intn(20), vocab)
					op.Target = 1 + slotFor(tn, "")
					if r.Intn(4) == 0 {
						op.Mut = 0
						op.Data, ok = encodeFor(sc, cfg, &op)
					}
				default:
					op, ok = decodeOp(sc, &r, cfg, tn, 2+r.Intn(20), vocab)
				}
				if !ok {
					nops--
					continue
				}
				op.Buf = 1 + r.Intn(2)
				op.Hold = r.Intn(6) != 0
				if op.Target > 0 && r.Intn(6) == 0 {
					op.Self = true
				}
				if op.Target > 0 && r.Intn(5) == 0 {
					// the target holds a value the caller built itself (exactly sized slices, other time zones...)
					ops = append(ops, Op{Kind: "fill", Type: tn, Target: op.Target, VSeed: r.Next() | 1, VSize: 2 + r.Intn(16), Vocab: vocab, Pat: "raw"})
				}
				ops = append(ops, op)
			case k < 7:
				ops = append(ops, Op{Kind: "scribble", Buf: 1 + r.Intn(2), Pat: scribblePats[r.Intn(len(scribblePats))], Arg: r.Intn(1000)})
			case k < 10:
				stn := c11StructTypes[r.Intn(len(c11StructTypes))]
				if r.Intn(3) == 0 {
					stn = tn // any type, including top-level byte slices and strings
				}
				// Arg = how the caller prepares the destination buffer (see marshalAppendOp)
				op := Op{Kind: "marshalAppend", Type: stn, VSeed: r.Next() | 1, VSize: 2 + r.Intn(20), Vocab: vocab, Arg: r.Intn(6)}
				if r.Intn(2) == 0 {
					op.Pat = "raw" // values that Marshal must leave as they are even though plenc normalises them
				}
				ops = append(ops, op)
			case k < 11:
				op := Op{Kind: "marshal", Type: tn, VSeed: r.Next() | 1, VSize: 2 + r.Intn(20), Vocab: vocab}
				if len(sc.Shared) > 0 && r.Intn(2) == 0 {
					op.Shared, op.Type = 1, sc.Shared[0].Type
				}
				ops = append(ops, op)
			default:
				ops = append(ops, Op{Kind: "recheck"})
			}
		}
		sc.Tasks = append(sc.Tasks, ops)
	}
	sc.Sites = pickSites(&r, []string{"op.begin"}, append(append(append(append([]string(nil), buildSites...), allDecodeSites...), internSites...), encodeSites...), []int{0, 30, 60, 100}[r.Intn(4)])
	sc.Policy = pickPolicy(&r, nt)
	return sc
}

// ---------------------------------------------------------------------------
// C10

var c10Types = []string{"MTarget", "MTarget", "MTarget", "MNamed", "Ptrs", "Zeros", "Sparse", "SparseNew", "Pts", "[]Pt", "Wide", "Wide", "Maps", "MapKS", "MapKV", "Node", "Sym", "V2", "JDoc", "[]int", "[]string", "Tree", "Nest", "NestD", "[][]int", "map[string][]int", "IDs", "Tags", "[]null.Int", "JArr", "JNest", "[]any"}

func GenC10(seed uint64, idx int) *Scenario {
	r := engine.PRNG{S: engine.Mix(seed, 0xC10, uint64(idx))}
	cfg := pickCfg(&r)
	// One caller: C10 is about histories. What other goroutines leave behind in
	// the pool is modelled by the pool seam; interleaving is C07's business.
	nt := 1
	sc := &Scenario{Prop: "C10", Seed: seed, Index: idx, Insts: []world.InstCfg{cfg}, PoolSeam: true, PoolBias: 70, SchedSeed: r.Next()}
	sc.Vocabs = [][]string{makeVocab(&r)}
	mainType := c10Types[r.Intn(len(c10Types))]
	for !world.ShapeOK(typeInfo(mainType), cfg) {
		mainType = c10Types[r.Intn(len(c10Types))]
	}
	// one scenario in fifty is a long history on one instance: hundreds of records of one type, most
	// of them damaged (decodes that fail part-way), valid ones into fresh variables in between -
	// state that builds up with every aborted operation needs that
	long := r.Intn(50) == 0
	if long {
		sc.Note = "long-history"
		sc.Budget = 400000
	}
	for t := 0; t < nt; t++ {
		nops := 5 + r.Intn(10)
		maxTries := 50
		if long {
			nops = 140 + r.Intn(160)
			maxTries = 3 * nops
		}
		var ops []Op
		tries := 0
		for len(ops) < nops && tries < maxTries {
			tries++
			if r.Intn(40) == 0 {
				ops = append(ops, Op{Kind: "gc"})
			}
			tn := mainType
			if !long && r.Intn(5) == 0 {
				tn = c10Types[r.Intn(len(c10Types))]
				if !world.ShapeOK(typeInfo(tn), cfg) {
					continue
				}
			}
			vocab := 0
			if r.Intn(2) == 0 {
				vocab = 1
			}
			sizes := []int{1, 2, 4, 8, 16, 30}
			if (tn == "Pts" || tn == "[]Pt") && r.Intn(2) == 0 {
				sizes = []int{90, 120, 160} // long first-level slices (kilobytes of elements)
			}
			var op Op
			var ok bool
			switch r.Intn(8) {
			case 0:
				op, ok = concatOp(sc, &r, cfg, tn, sizes[r.Intn(4)%len(sizes)], vocab)
			case 1, 2, 3, 4:
				// a value related to the others decoded into this slot: same keys, zero over non-zero, shorter / longer slices
				op, ok = relatedDecodeOp(sc, &r, cfg, tn, slotSeed(seed, idx, t, tn), sizes[(2+r.Intn(4))%len(sizes)], vocab)
				if r.Intn(4) == 0 {
					op.Mut = 0
					op.Data, ok = encodeFor(sc, cfg, &op)
				}
			default:
				op, ok = decodeOp(sc, &r, cfg, tn, sizes[r.Intn(len(sizes))], vocab)
			}
			if !ok {
				continue
			}
			k := r.Intn(12)
			if long {
				k = 8 // torn
				if r.Intn(5) == 0 {
					k = 6 // valid, fresh target
				}
			}
			switch {
			case k < 6: // re-used target; slot bound to the type so that re-use really happens
				op.Target = 1 + slotFor(tn, mainType)
				switch r.Intn(6) {
				case 0, 1:
					// the caller first cuts the slices of the value it re-uses (v.Items = v.Items[:0])
					ops = append(ops, Op{Kind: "reslice", Target: op.Target, Arg: r.Intn(1000)})
				case 2:
					// the target holds a value the caller built itself (not one plenc decoded): half
					// the time a relative of what is about to be decoded into it (the same fields
					// populated, similar lengths), otherwise anything
					f := Op{Kind: "fill", Type: tn, Target: op.Target, VSeed: r.Next() | 1, VSize: 2 + r.Intn(16), Vocab: vocab, Pat: "raw"}
					if r.Intn(2) == 0 {
						f.VSeed, f.VSize, f.Mut = slotSeed(seed, idx, t, tn), op.VSize, r.Next()|1
					}
					ops = append(ops, f)
				}
				ops = append(ops, op)
			case k < 8: // fresh target: must be independent of history
				ops = append(ops, op)
			case k < 10: // torn record (an operation aborted part-way), fresh or re-used target
				raw, _ := hex.DecodeString(op.Data)
				if len(raw) < 2 {
					continue
				}
				dmg, _ := DamageRecord(raw, r.Intn)
				op.Data = hex.EncodeToString(dmg)
				op.VSeed = 0 // the value behind the bytes is no longer known
				if !long && r.Intn(2) == 0 {
					op.Target = 1 + slotFor(tn, mainType)
				}
				op.Pat = "torn"
				ops = append(ops, op)
			default:
				if r.Intn(2) == 0 {
					// marshal the value sitting in the re-used target (same address as last time, new content)
					ops = append(ops, Op{Kind: "marshalTarget", Type: tn, Target: 1 + slotFor(tn, mainType), Arg: r.Intn(3)})
				} else {
					ops = append(ops, Op{Kind: "marshal", Type: tn, VSeed: r.Next() | 1, VSize: 2 + r.Intn(20), Vocab: vocab})
				}
			}
		}
		sc.Tasks = append(sc.Tasks, ops)
	}
	sc.Sites = pickSites(&r, []string{"op.begin", "map.key", "map.entry"}, append(append([]string(nil), allDecodeSites...), internSites...), []int{0, 30, 60, 100}[r.Intn(4)])
	sc.Policy = pickPolicy(&r, nt)
	return sc
}

// slotSeed is the base value seed shared by the related values of one slot.
func slotSeed(seed uint64, idx, task int, tn string) uint64 {
	h := uint64(0)
	for i := 0; i < len(tn); i++ {
		h = h*131 + uint64(tn[i])
	}
	return engine.Mix(seed, uint64(idx), uint64(task), h) | 1
}

func slotFor(tn, main string) int {
	if tn == main {
		return 0
	}
	// one extra slot per other type name (stable small hash)
	h := 0
	for i := 0; i < len(tn); i++ {
		h = (h*31 + int(tn[i])) % 7
	}
	return 1 + h
}
