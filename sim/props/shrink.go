package props

import (
	"encoding/json"
	"fmt"
	"os"
	"strings"
	"time"

	"verifsim/engine"
)

// ReplayFile is the on-disk form of a violation: the scenario, the schedule
// and fault decisions, and what went wrong.
type ReplayFile struct {
	Property  string     `json:"property"`
	Engine    string     `json:"engine"` // "sched" | "store"
	Violation *Violation `json:"violation"`
	Scenario  *Scenario  `json:"scenario,omitempty"`
	// Decisions is the recorded decision list ("s1 s0 g1 p1 ..."): s = which
	// task runs next at a yield, g = pool get (0 fresh, j = j-th most recent
	// recycled scratch), p = pool put (1 keep, 0 drop). Empty with UsePolicy
	// set means the scenario's policy and sched_seed decide.
	Decisions string   `json:"decisions"`
	UsePolicy bool     `json:"use_policy,omitempty"`
	Race      bool     `json:"race_build,omitempty"`
	Trace     []string `json:"trace,omitempty"`
	Minimised bool     `json:"minimised"`
	Shrink    string   `json:"shrink_log,omitempty"`
	Confirmed bool     `json:"replay_confirmed"`
	Original  *struct {
		Scenario  *Scenario `json:"scenario"`
		Decisions string    `json:"decisions"`
	} `json:"original,omitempty"`
	Store *StoreCase `json:"store_case,omitempty"`
	Echo  *EchoCase  `json:"echo_case,omitempty"`
}

// EchoCase: scenario From was executed, then the scenarios From+Stride ... To,
// then scenario From again, in one process; the two executions of From differed.
type EchoCase struct {
	Seed   uint64 `json:"seed"`
	From   int    `json:"from"`
	To     int    `json:"to"`
	Stride int    `json:"stride"`
	// Part / Tier / Race: set when the finding is a crash of a worker process after a
	// history of runs; the replay re-executes that worker's share up to To.
	Part string `json:"part,omitempty"`
	Tier string `json:"tier,omitempty"`
	Race bool   `json:"race,omitempty"`
}

func (rf *ReplayFile) Write(path string) error {
	b, err := json.MarshalIndent(rf, "", " ")
	if err != nil {
		return err
	}
	return os.WriteFile(path, b, 0o644)
}

func LoadReplay(path string) (*ReplayFile, error) {
	b, err := os.ReadFile(path)
	if err != nil {
		return nil, err
	}
	var rf ReplayFile
	if err := json.Unmarshal(b, &rf); err != nil {
		return nil, err
	}
	return &rf, nil
}

func TraceStrings(tr []uint16) []string {
	out := make([]string, 0, len(tr))
	for _, e := range tr {
		out = append(out, fmt.Sprintf("t%d:%s", e>>8, engine.SiteNames[e&0xff]))
	}
	return out
}

func cloneScenario(sc *Scenario) *Scenario {
	b, _ := json.Marshal(sc)
	var out Scenario
	json.Unmarshal(b, &out)
	return &out
}

// RunForced prepares and executes sc with a forced decision list. A solo
// failure (HarnessError) is reported as ok=false.
func RunForced(sc *Scenario, hooks func() PropHooks, decs []engine.Dec, usePolicy bool) (out *Outcome, ok bool) {
	defer func() {
		if r := recover(); r != nil {
			if _, isH := r.(HarnessError); isH {
				out, ok = nil, false
				return
			}
			panic(r)
		}
	}()
	prep := Prepare(sc, false)
	var h PropHooks
	if hooks != nil {
		h = hooks()
	}
	if usePolicy {
		return Execute(prep, h, nil, false), true
	}
	return Execute(prep, h, decs, true), true
}

func findClass(out *Outcome, class string) *Violation {
	if out == nil {
		return nil
	}
	for _, v := range out.Violations {
		if v.Class() == class {
			return v
		}
	}
	return nil
}

// Shrink minimises a failing (scenario, decisions) pair while a violation of
// the same class persists. It returns the smallest reproduction found.
func Shrink(sc *Scenario, hooks func() PropHooks, decs []engine.Dec, viol *Violation, maxRuns int, maxTime time.Duration, post func(*Outcome)) (*Scenario, []engine.Dec, *Violation, *Outcome, string) {
	class := viol.Class()
	deadline := time.Now().Add(maxTime)
	runs := 0
	var log []string
	best, bestDecs, bestViol := cloneScenario(sc), decs, viol
	var bestOut *Outcome

	try := func(cand *Scenario, cdecs []engine.Dec) bool {
		if runs >= maxRuns || time.Now().After(deadline) {
			return false
		}
		runs++
		c2 := cloneScenario(cand)
		out, ok := RunForced(c2, hooks, cdecs, false)
		if !ok {
			return false
		}
		if post != nil {
			post(out)
		}
		v := findClass(out, class)
		if v == nil {
			return false
		}
		best, bestDecs, bestViol, bestOut = c2, out.Decisions, v, out
		return true
	}

	// establish the baseline under forced decisions
	if !try(best, bestDecs) {
		return best, bestDecs, bestViol, nil, "baseline did not reproduce under forced decisions"
	}

	// 1. drop whole tasks
	for t := len(best.Tasks) - 1; t >= 0 && len(best.Tasks) > 1; t-- {
		cand := cloneScenario(best)
		cand.Tasks = append(cand.Tasks[:t], cand.Tasks[t+1:]...)
		fixPolicy(cand, t)
		var nd []engine.Dec
		for _, d := range bestDecs {
			if d.Kind() == 's' {
				switch {
				case d.Val() == t:
					continue
				case d.Val() > t:
					d = engine.MkDec('s', d.Val()-1)
				}
			}
			nd = append(nd, d)
		}
		if try(cand, nd) {
			log = append(log, fmt.Sprintf("dropped task %d", t))
		}
	}
	// 2. drop operations
	for t := len(best.Tasks) - 1; t >= 0; t-- {
		for o := len(best.Tasks[t]) - 1; o >= 0; o-- {
			if len(best.Tasks[t]) <= 1 && len(best.Tasks) <= 1 {
				break
			}
			if t >= len(best.Tasks) || o >= len(best.Tasks[t]) {
				continue
			}
			cand := cloneScenario(best)
			cand.Tasks[t] = append(cand.Tasks[t][:o], cand.Tasks[t][o+1:]...)
			if try(cand, bestDecs) {
				log = append(log, fmt.Sprintf("dropped op %d of task %d", o, t))
			}
		}
	}
	// 3. remove context switches: replace chunks of decisions by "default"
	for chunk := len(bestDecs); chunk >= 1; chunk /= 2 {
		for start := 0; start < len(bestDecs); start += chunk {
			end := start + chunk
			if end > len(bestDecs) {
				end = len(bestDecs)
			}
			nd := append([]engine.Dec(nil), bestDecs...)
			changed := false
			for i := start; i < end; i++ {
				if nd[i].Val() != -1 {
					nd[i] = engine.DecDefault(nd[i].Kind())
					changed = true
				}
			}
			if !changed {
				continue
			}
			before := len(bestDecs)
			if try(best, nd) {
				log = append(log, fmt.Sprintf("defaulted decisions [%d,%d) of %d", start, end, before))
			}
		}
		if chunk == 1 {
			break
		}
	}
	// 4. disable yield sites
	for i := len(best.Sites) - 1; i >= 0; i-- {
		if i >= len(best.Sites) {
			continue
		}
		cand := cloneScenario(best)
		site := cand.Sites[i]
		cand.Sites = append(cand.Sites[:i], cand.Sites[i+1:]...)
		if try(cand, bestDecs) {
			log = append(log, "disabled site "+site)
		}
	}
	// 5. smaller values
	for t := range best.Tasks {
		for o := range best.Tasks[t] {
			for best.Tasks[t][o].VSize > 1 && best.Tasks[t][o].Data == "" {
				cand := cloneScenario(best)
				cand.Tasks[t][o].VSize /= 2
				if !try(cand, bestDecs) {
					break
				}
				log = append(log, fmt.Sprintf("halved value size of task %d op %d", t, o))
			}
		}
	}
	log = append(log, fmt.Sprintf("%d executions", runs))
	return best, bestDecs, bestViol, bestOut, strings.Join(log, "; ")
}

// fixPolicy keeps task indexes in the policy valid after task t was removed
// (only relevant when the file is replayed with use_policy).
func fixPolicy(sc *Scenario, t int) {
	adj := func(x *int) {
		if *x > t {
			*x--
		} else if *x == t {
			*x = 0
		}
	}
	adj(&sc.Policy.StallTask)
	adj(&sc.Policy.SweepA)
	adj(&sc.Policy.SweepB)
}
