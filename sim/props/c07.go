package props

import (
	"encoding/hex"

	"verifsim/engine"
	"verifsim/world"
)

// C07: safe for concurrent use, including concurrent first use of a type.

var buildSites = []string{"reg.load", "reg.store", "reg.storeOrSwap", "struct.field", "struct.fieldDone", "struct.index", "struct.done", "map.build", "op.begin", "auto.atomic", "auto.lock", "auto.call", "auto.spin"}
var steadySites = []string{"intern.miss", "intern.locked", "intern.publish", "map.entry", "map.key", "map.value", "struct.read", "struct.append", "slice.elem", "slice.append", "time.read", "json.map", "json.array", "json.kv", "struct.size", "struct.descriptor", "map.size", "map.append", "slice.size", "slice.encode", "json.size", "json.encode", "other", "auto.atomic", "auto.lock", "auto.call", "auto.spin"}

func pickSites(r *engine.PRNG, always []string, optional []string, pct int) []string {
	out := append([]string(nil), always...)
	for _, s := range optional {
		if r.Intn(100) < pct {
			out = append(out, s)
		}
	}
	return out
}

func pickPolicy(r *engine.PRNG, ntasks int) engine.Policy {
	switch r.Intn(10) {
	case 0, 1, 2:
		return engine.Policy{Kind: "random"}
	case 3, 4, 5:
		return engine.Policy{Kind: "sticky", P: []int{4, 16, 64}[r.Intn(3)]}
	case 6, 7:
		return engine.Policy{Kind: "pct", D: 1 + r.Intn(3), Est: 40 * ntasks}
	default:
		return engine.Policy{Kind: "stall", StallTask: r.Intn(ntasks), StallAt: 1 + r.Intn(30)}
	}
}

func pickCfg(r *engine.PRNG) world.InstCfg {
	if r.Intn(8) == 0 {
		return world.InstCfg{Default: true}
	}
	return world.Configs[r.Intn(len(world.Configs))]
}

var c07Families = []string{"F1", "F2", "F2", "F3", "F3", "F4", "F4", "F5", "F6", "FJ", "F8", "F9", "FN", "FM", "FD"}

// usableTypes lists the types of a family usable under cfg.
func usableTypes(fam string, cfg world.InstCfg, includeBad bool) []string {
	var out []string
	for _, ti := range world.TypeList {
		if ti.Family != fam {
			continue
		}
		if ti.Bad {
			if includeBad {
				out = append(out, ti.Name)
			}
			continue
		}
		if !world.ShapeOK(ti, cfg) {
			continue
		}
		out = append(out, ti.Name)
	}
	return out
}

// encodeFor produces the canonical encoding of a generated value, by a solo
// marshal on a fresh instance.
func encodeFor(sc *Scenario, cfg world.InstCfg, op *Op) (string, bool) {
	v := sc.genValue(op)
	b, errs, pan := soloMarshal(cfg, v.Addr().Interface())
	if pan != "" || errs != "" {
		return "", false
	}
	cb, err := world.Canon(typeInfo(op.Type).T, b)
	if err != nil {
		return "", false
	}
	return hex.EncodeToString(cb), true
}

func genC07Op(sc *Scenario, r *engine.PRNG, cfg world.InstCfg, types []string, fam string) (Op, bool) {
	tn := types[r.Intn(len(types))]
	ti := typeInfo(tn)
	op := Op{Type: tn, VSeed: r.Next() | 1, VSize: 3 + r.Intn(20)}
	if ti.Bad {
		op.Kind = "codec"
		if sc.SimReg {
			op.Kind = "simreg"
		}
		op.VSeed = 0
		return op, true
	}
	switch r.Intn(11) {
	case 10:
		// Marshal into a caller-supplied buffer (empty, tight, with a prefix...)
		op.Kind = "marshalAppend"
		op.Arg = r.Intn(6)
	case 0, 1, 2, 3:
		op.Kind = "marshal"
		if len(sc.Shared) > 0 && r.Intn(4) == 0 {
			k := r.Intn(len(sc.Shared))
			op.Shared = k + 1
			op.Type = sc.Shared[k].Type
		}
	case 4, 5, 6:
		op.Kind = "unmarshal"
		d, ok := encodeFor(sc, cfg, &op)
		if !ok {
			return op, false
		}
		op.Data = d
		foreignWriter(r, &op)
		if r.Intn(4) == 0 && len(d) >= 4 {
			// another caller's record arrives damaged (torn or one byte rotten): the
			// call must still behave as it does alone, and must not disturb the others
			raw, _ := hex.DecodeString(d)
			raw, _ = DamageRecord(raw, r.Intn)
			op.Data = hex.EncodeToString(raw)
			op.Pat = "damaged"
		}
	default:
		op.Kind = "codec"
		if r.Intn(3) == 0 {
			op.VSeed = 0 // descriptor only
		}
		if sc.SimReg {
			op.Kind = "simreg" // through the simulator-owned registry
		}
	}
	return op, true
}

// GenC07 builds the idx-th PRNG-drawn scenario for seed.
func GenC07(seed uint64, idx int) *Scenario {
	r := engine.PRNG{S: engine.Mix(seed, 0xC07, uint64(idx))}
	cfg := pickCfg(&r)
	fam := c07Families[r.Intn(len(c07Families))]
	types := usableTypes(fam, cfg, fam == "F9")
	if fam == "F9" {
		// also some healthy neighbours sharing no types
		types = append(types, "Small")
	}
	nt := 2 + r.Intn(3)
	if r.Intn(10) == 0 {
		nt = 5 + r.Intn(2)
	}
	sc := &Scenario{Prop: "C07", Seed: seed, Index: idx, Insts: []world.InstCfg{cfg}, PoolSeam: true, PoolBias: 50, SchedSeed: r.Next()}
	// one run in six builds its codecs through the exported registry seam
	sc.SimReg = r.Intn(6) == 0 && !cfg.Default
	if fam != "F9" && r.Intn(2) == 0 {
		// shared read-only values marshalled by several tasks at once
		for i := 0; i < 1+r.Intn(2); i++ {
			tn := types[r.Intn(len(types))]
			sc.Shared = append(sc.Shared, SharedVal{Type: tn, VSeed: r.Next() | 1, VSize: 4 + r.Intn(16)})
		}
	}
	// most operations of a run use one focus type, so that callers meet on the
	// same codec, pool and tables also in the steady state
	focus := types[r.Intn(len(types))]
	steady := r.Intn(3) == 0
	// one run in five has a second, differently configured instance used at
	// the same time by some of the callers (state outside an instance would
	// show as one configuration leaking into the other)
	if r.Intn(5) == 0 && !cfg.Default && !sc.SimReg {
		other := world.Configs[r.Intn(len(world.Configs))]
		if other != cfg {
			sc.Insts = append(sc.Insts, other)
		}
	}
	for t := 0; t < nt; t++ {
		nops := 1 + r.Intn(4)
		if steady {
			nops = 3 + r.Intn(4)
		}
		inst := 0
		icfg := cfg
		if len(sc.Insts) > 1 && t%2 == 1 {
			inst, icfg = 1, sc.Insts[1]
		}
		var ops []Op
		for len(ops) < nops {
			pick := types
			if r.Intn(10) < 7 {
				pick = []string{focus}
			}
			op, ok := genC07Op(sc, &r, icfg, pick, fam)
			if ok && !world.ShapeOK(typeInfo(op.Type), icfg) && !typeInfo(op.Type).Bad {
				ok = false
			}
			if !ok {
				nops--
				continue
			}
			op.Inst = inst
			ops = append(ops, op)
		}
		sc.Tasks = append(sc.Tasks, ops)
	}
	sc.Sites = pickSites(&r, buildSites, steadySites, []int{0, 30, 60, 100}[r.Intn(4)])
	if sc.SimReg {
		sc.Sites = append(sc.Sites, "simreg.load", "simreg.storeOrSwap")
		if r.Intn(2) == 0 {
			// only the seam's own yields: what is left if a change removed the hooks
			sc.Sites = []string{"simreg.load", "simreg.storeOrSwap", "op.begin"}
		}
	}
	sc.Policy = pickPolicy(&r, nt)
	return sc
}

// SweepJob is one ordered pair of first-use operations; the sweep places one
// preemption at every yield index of the first in turn.
type SweepJob struct {
	Prop   string
	Cfg    world.InstCfg
	A, B   Op
	Sites  []string
	Vocabs [][]string
	Pre    []Op // history task A lives through before its swept operation
	Steady bool // codecs are built before the run; the pool seam always recycles
}

// C07SweepJobs enumerates the (configuration, ordered pair) jobs.
func C07SweepJobs(seed uint64, quick bool) []SweepJob {
	var jobs []SweepJob
	cfgs := []world.InstCfg{{}, {ProtoArrays: true}}
	if !quick {
		cfgs = append(cfgs, world.InstCfg{ProtoTime: true}, world.InstCfg{Default: true})
	}
	fams := []string{"F2", "F3", "F4", "F5", "F6", "F9", "FD"}
	if !quick {
		fams = append(fams, "F1", "FJ", "F8")
	}
	r := engine.PRNG{S: engine.Mix(seed, 0x5EE9)}
	for _, cfg := range cfgs {
		for _, fam := range fams {
			types := usableTypes(fam, cfg, true)
			for _, a := range types {
				for _, b := range types {
					if quick && r.Intn(3) != 0 && fam != "F2" {
						continue // quick samples a third of the pairs outside F2
					}
					mk := func(tn string) Op {
						ti := typeInfo(tn)
						if ti.Bad {
							return Op{Kind: "codec", Type: tn}
						}
						op := Op{Kind: "marshal", Type: tn, VSeed: r.Next() | 1, VSize: 10}
						if r.Intn(2) == 0 {
							op.Kind = "codec"
						}
						return op
					}
					jobs = append(jobs, SweepJob{Cfg: cfg, A: mk(a), B: mk(b)})
				}
			}
		}
	}
	return append(jobs, c07SteadyJobs(seed, quick)...)
}

var steadyTypes = []string{"MapKS", "MapKV", "Maps", "MapSI", "map[string]*Node", "Sym", "SymBox", "Wide", "V2", "JDoc", "MTarget", "RA", "Nest", "map[string][]int"}

// c07SteadyJobs: the sweep for the steady state. Task A first lives through a
// short history on the shared instance (damaged records - aborted operations -
// and a valid one), then decodes a valid record; task B decodes another valid
// record of the same type and is placed at every yield of A in turn. The pool
// seam always recycles, so whatever the history left in the scratch pool is
// handed out again.
func c07SteadyJobs(seed uint64, quick bool) []SweepJob {
	r := engine.PRNG{S: engine.Mix(seed, 0x57EAD1)}
	var jobs []SweepJob
	reps := 2
	if !quick {
		reps = 10
	}
	sites := append(append([]string{"op.begin"}, steadySites...), "slice.varint")
	for _, cfg := range []world.InstCfg{{}, {ProtoArrays: true}} {
		for _, tn := range steadyTypes {
			if !world.ShapeOK(typeInfo(tn), cfg) {
				continue
			}
			for k := 0; k < reps; k++ {
				sc := &Scenario{}
				mk := func() (Op, bool) {
					op := Op{Kind: "unmarshal", Type: tn, VSeed: r.Next() | 1, VSize: 4 + r.Intn(12)}
					d, ok := encodeFor(sc, cfg, &op)
					op.Data = d
					return op, ok
				}
				var pre []Op
				for j := 0; j < 1+r.Intn(3); j++ {
					op, ok := mk()
					if !ok || len(op.Data) < 8 {
						continue
					}
					raw, _ := hex.DecodeString(op.Data)
					raw, _ = DamageRecord(raw, r.Intn)
					op.Data, op.Pat = hex.EncodeToString(raw), "damaged"
					pre = append(pre, op)
				}
				a, ok1 := mk()
				b, ok2 := mk()
				if !ok1 || !ok2 {
					continue
				}
				jobs = append(jobs, SweepJob{Prop: "C07", Cfg: cfg, A: a, B: b, Pre: pre, Sites: sites, Steady: true})
			}
		}
	}
	return jobs
}

// SweepScenario builds the scenario for one placement of a sweep job.
func SweepScenario2(seed uint64, job SweepJob, jobIdx int, i, j int) *Scenario {
	sc := SweepScenario(seed, job, jobIdx, i)
	sc.Policy.SweepJ = j
	sc.Note = "sweep2"
	return sc
}

func SweepScenario(seed uint64, job SweepJob, jobIdx int, i int) *Scenario {
	prop := job.Prop
	if prop == "" {
		prop = "C07"
	}
	sites := job.Sites
	if sites == nil {
		sites = append(append([]string(nil), buildSites...), "struct.append", "struct.read", "struct.size", "struct.descriptor")
	}
	sc := &Scenario{
		Prop: prop, Seed: seed, Index: -1 - jobIdx, Insts: []world.InstCfg{job.Cfg},
		Tasks: [][]Op{append(append([]Op(nil), job.Pre...), job.A), {job.B}}, Sites: sites, Vocabs: job.Vocabs,
		Policy:   engine.Policy{Kind: "sweep", SweepA: 0, SweepB: 1, SweepI: i},
		PoolSeam: false, Note: "sweep",
	}
	if job.Steady {
		sc.PoolSeam, sc.PoolBias, sc.Warm, sc.Note = true, 100, true, "steady-sweep"
	}
	return sc
}
