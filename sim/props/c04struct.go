package props

import (
	"encoding/binary"
	"fmt"
)

// Structure-aware storage faults. Byte-level damage (flips, cuts, inserts)
// models a failing medium; this class models a failing or foreign WRITER: a
// peer with another schema version, a protobuf encoder, a half-applied update.
// The record is parsed into its wire structure (fields, length-delimited
// payloads, counted slices, recursively, by shape alone - no type knowledge),
// ONE node is changed, and the record is written out again with every
// ENCLOSING length kept consistent with the bytes - so the damage arrives
// exactly where it was aimed instead of being rejected by an outer length
// check. Single-node changes: declared length or count off by a little,
// re-framing (counted slice <-> length-delimited), another wire type, another
// field index, node duplicated, deleted, swapped with its neighbour.

type wnode struct {
	idx      int
	wt       int
	raw      []byte    // payload for varint / fixed / opaque length-delimited
	kids     []*wnode  // parsed message inside a length-delimited payload
	entries  []*wentry // counted slice
	isMsg    bool
	lenDelta int // declared length = actual + lenDelta (fault)
	cntDelta int // declared count = actual + cntDelta (fault)
	noTag    bool
}

type wentry struct {
	raw      []byte
	kids     []*wnode
	isMsg    bool
	lenDelta int
}

func uv(b []byte) (uint64, int) { return binary.Uvarint(b) }

func putUv(b []byte, v uint64) []byte {
	for v >= 0x80 {
		b = append(b, byte(v)|0x80)
		v >>= 7
	}
	return append(b, byte(v))
}

// parseMsg parses data as a sequence of tagged fields; ok=false if it is not one.
func parseMsg(data []byte, depth int) ([]*wnode, bool) {
	if depth > 12 {
		return nil, false
	}
	var out []*wnode
	off := 0
	for off < len(data) {
		tag, n := uv(data[off:])
		if n <= 0 || tag>>3 == 0 || tag>>3 > 1<<20 {
			return nil, false
		}
		off += n
		nd := &wnode{idx: int(tag >> 3), wt: int(tag & 7)}
		switch nd.wt {
		case 0:
			_, n := uv(data[off:])
			if n <= 0 {
				return nil, false
			}
			nd.raw = data[off : off+n]
			off += n
		case 1:
			if len(data)-off < 8 {
				return nil, false
			}
			nd.raw = data[off : off+8]
			off += 8
		case 5:
			if len(data)-off < 4 {
				return nil, false
			}
			nd.raw = data[off : off+4]
			off += 4
		case 2:
			l, n := uv(data[off:])
			if n <= 0 || l > uint64(len(data)-off-n) {
				return nil, false
			}
			off += n
			nd.raw = data[off : off+int(l)]
			off += int(l)
			if len(nd.raw) >= 2 {
				if kids, ok := parseMsg(nd.raw, depth+1); ok {
					nd.kids, nd.isMsg = kids, true
				}
			}
		case 3:
			es, used, ok := parseEntries(data[off:], depth+1)
			if !ok {
				return nil, false
			}
			nd.entries = es
			off += used
		default:
			return nil, false
		}
		out = append(out, nd)
	}
	return out, true
}

func parseEntries(data []byte, depth int) ([]*wentry, int, bool) {
	count, n := uv(data)
	if n <= 0 || count > uint64(len(data)) {
		return nil, 0, false
	}
	off := n
	var es []*wentry
	for i := uint64(0); i < count; i++ {
		l, n := uv(data[off:])
		if n <= 0 || l > uint64(len(data)-off-n) {
			return nil, 0, false
		}
		off += n
		e := &wentry{raw: data[off : off+int(l)]}
		off += int(l)
		if len(e.raw) >= 2 {
			if kids, ok := parseMsg(e.raw, depth+1); ok {
				e.kids, e.isMsg = kids, true
			}
		}
		es = append(es, e)
	}
	return es, off, true
}

func writeMsg(b []byte, nodes []*wnode) []byte {
	for _, nd := range nodes {
		b = writeNode(b, nd)
	}
	return b
}

func payloadOf(raw []byte, kids []*wnode, isMsg bool) []byte {
	if isMsg {
		return writeMsg(nil, kids)
	}
	return raw
}

func writeEntries(b []byte, nd *wnode) []byte {
	b = putUv(b, uint64(int64(len(nd.entries))+int64(nd.cntDelta)))
	for _, e := range nd.entries {
		p := payloadOf(e.raw, e.kids, e.isMsg)
		b = putUv(b, uint64(int64(len(p))+int64(e.lenDelta)))
		b = append(b, p...)
	}
	return b
}

func writeNode(b []byte, nd *wnode) []byte {
	if !nd.noTag {
		b = putUv(b, uint64(nd.idx)<<3|uint64(nd.wt))
	}
	switch {
	case nd.entries != nil || (nd.wt == 3 && nd.raw == nil && nd.kids == nil):
		if nd.wt == 2 {
			// re-framed: the counted body travels as a length-delimited payload
			body := writeEntries(nil, nd)
			b = putUv(b, uint64(int64(len(body))+int64(nd.lenDelta)))
			return append(b, body...)
		}
		return writeEntries(b, nd)
	case nd.wt == 2:
		p := payloadOf(nd.raw, nd.kids, nd.isMsg)
		b = putUv(b, uint64(int64(len(p))+int64(nd.lenDelta)))
		return append(b, p...)
	case nd.wt == 3:
		// a length-delimited payload re-framed as a counted slice: no length prefix
		return append(b, payloadOf(nd.raw, nd.kids, nd.isMsg)...)
	default:
		return append(b, payloadOf(nd.raw, nd.kids, nd.isMsg)...)
	}
}

func allNodes(nodes []*wnode, out *[]*wnode) {
	for _, nd := range nodes {
		*out = append(*out, nd)
		if nd.isMsg {
			allNodes(nd.kids, out)
		}
		for _, e := range nd.entries {
			if e.isMsg {
				allNodes(e.kids, out)
			}
		}
	}
}

// EnumerateStructFaults emits every single-node structural fault of record a.
// top says how the record starts: a message (struct) or a counted body (top-level
// slice or map).
func EnumerateStructFaults(a []byte, thorough bool, emit func(f fault) bool) {
	var root *wnode
	if kids, ok := parseMsg(a, 0); ok && len(kids) > 0 {
		root = &wnode{wt: 2, kids: kids, isMsg: true, noTag: true}
	} else if es, used, ok := parseEntries(a, 0); ok && used == len(a) && len(es) > 0 {
		root = &wnode{wt: 3, entries: es, noTag: true}
	} else {
		return
	}
	render := func() []byte {
		if root.isMsg {
			return writeMsg(nil, root.kids)
		}
		return writeEntries(nil, root)
	}
	if string(render()) != string(a) {
		return // not a faithful parse (non-minimal varints...): leave it to the byte-level classes
	}
	var nodes []*wnode
	if root.isMsg {
		allNodes(root.kids, &nodes)
	} else {
		nodes = append(nodes, root)
		for _, e := range root.entries {
			if e.isMsg {
				allNodes(e.kids, &nodes)
			}
		}
	}
	out := func(kind, desc string) bool {
		d := render()
		if string(d) == string(a) {
			return true
		}
		return emit(fault{kind, desc, d})
	}
	deltas := []int{1, 2, 3, -1}
	if thorough {
		deltas = []int{1, 2, 3, 4, 8, 127, -1, -2}
	}
	for ni, nd := range nodes {
		where := fmt.Sprintf("node %d (field %d, wire type %d)", ni, nd.idx, nd.wt)
		// declared length off by a little, enclosing lengths consistent
		if nd.wt == 2 && !nd.noTag {
			for _, k := range deltas {
				nd.lenDelta = k
				if !out("struct_length", fmt.Sprintf("declared length of %s off by %+d, enclosing lengths consistent", where, k)) {
					return
				}
			}
			nd.lenDelta = 0
		}
		if nd.entries != nil {
			for _, k := range []int{1, -1, 2} {
				nd.cntDelta = k
				if !out("struct_count", fmt.Sprintf("declared count of %s off by %+d", where, k)) {
					return
				}
			}
			nd.cntDelta = 0
			for ei, e := range nd.entries {
				for _, k := range deltas {
					e.lenDelta = k
					if !out("struct_entry_length", fmt.Sprintf("declared length of entry %d of %s off by %+d, enclosing lengths consistent", ei, where, k)) {
						return
					}
				}
				e.lenDelta = 0
				if !thorough && ei >= 2 {
					break
				}
			}
		}
		if nd.noTag {
			continue
		}
		// re-framing: counted slice <-> length-delimited
		if nd.wt == 3 && nd.entries != nil {
			nd.wt = 2
			for _, k := range append([]int{0}, deltas...) {
				nd.lenDelta = k
				if !out("struct_reframe", fmt.Sprintf("%s written length-delimited (as a protobuf peer would), length off by %+d", where, k)) {
					return
				}
			}
			nd.lenDelta, nd.wt = 0, 3
		} else if nd.wt == 2 {
			nd.wt = 3
			if !out("struct_reframe", fmt.Sprintf("%s written without its length, as a counted slice", where)) {
				return
			}
			nd.wt = 2
		}
		// another wire type on the same bytes
		orig := nd.wt
		if nd.entries == nil {
			for _, w := range []int{0, 1, 2, 3, 5, 4, 7} {
				if w == orig {
					continue
				}
				nd.wt = w
				saveK, saveM := nd.kids, nd.isMsg
				if w != 2 && w != 3 {
					// raw bytes follow the tag
					nd.raw = payloadOf(nd.raw, nd.kids, nd.isMsg)
					nd.kids, nd.isMsg = nil, false
				}
				ok := out("struct_wiretype", fmt.Sprintf("%s tagged with wire type %d", where, w))
				nd.kids, nd.isMsg = saveK, saveM
				if !ok {
					return
				}
			}
			nd.wt = orig
		}
		// another field index
		oi := nd.idx
		for _, ix := range []int{0, oi + 1, oi - 1, 1, 2, 3, 1 << 28} {
			if ix == oi || ix < 0 {
				continue
			}
			nd.idx = ix
			if !out("struct_index", fmt.Sprintf("%s written under field index %d", where, ix)) {
				return
			}
		}
		nd.idx = oi
	}
	// sibling-level faults: duplicate, delete, swap
	stop := false
	visit := func(list *[]*wnode) {
		if stop {
			return
		}
		l := *list
		for i := range l {
			dup := append(append(append([]*wnode(nil), l[:i+1]...), l[i]), l[i+1:]...)
			*list = dup
			if !outList(root, list, dup, l, "struct_duplicate", fmt.Sprintf("field %d written twice", l[i].idx), out) {
				stop = true
				return
			}
			del := append(append([]*wnode(nil), l[:i]...), l[i+1:]...)
			if !outList(root, list, del, l, "struct_delete", fmt.Sprintf("field %d missing", l[i].idx), out) {
				stop = true
				return
			}
			if i+1 < len(l) {
				sw := append([]*wnode(nil), l...)
				sw[i], sw[i+1] = sw[i+1], sw[i]
				if !outList(root, list, sw, l, "struct_swap", fmt.Sprintf("fields %d and %d in the other order", l[i].idx, l[i+1].idx), out) {
					stop = true
					return
				}
			}
		}
	}
	if root.isMsg {
		walkListsPtr(&root.kids, visit)
	} else {
		for _, e := range root.entries {
			if e.isMsg {
				walkListsPtr(&e.kids, visit)
			}
		}
	}
}

func outList(root *wnode, list *[]*wnode, mutated, orig []*wnode, kind, desc string, out func(string, string) bool) bool {
	*list = mutated
	ok := out(kind, desc)
	*list = orig
	return ok
}

// walkListsPtr visits every sibling list through a pointer to the slice that
// holds it, so that a visitor can replace the list in place.
func walkListsPtr(list *[]*wnode, f func(list *[]*wnode)) {
	f(list)
	for _, nd := range *list {
		if nd.isMsg {
			walkListsPtr(&nd.kids, f)
		}
		for _, e := range nd.entries {
			if e.isMsg {
				walkListsPtr(&e.kids, f)
			}
		}
	}
}

// DamageRecord applies one drawn storage fault to a valid record: a torn
// write, a rotten bit, or a structural fault that keeps the enclosing lengths
// consistent (so that the decoder fails deep inside, not at the first outer
// length check).
func DamageRecord(raw []byte, next func(n int) int) ([]byte, string) {
	if len(raw) < 2 {
		return raw, "none"
	}
	switch next(10) {
	case 0, 1, 2, 3:
		return append([]byte(nil), raw[:1+next(len(raw)-1)]...), "torn"
	case 4, 5, 6:
		d := append([]byte(nil), raw...)
		d[next(len(d))] ^= byte(1 << uint(next(8)))
		return d, "bit flip"
	default:
		var all []fault
		EnumerateStructFaults(raw, false, func(f fault) bool {
			all = append(all, f)
			return len(all) < 400
		})
		if len(all) == 0 {
			d := append([]byte(nil), raw...)
			d[next(len(d))] ^= byte(1 << uint(next(8)))
			return d, "bit flip"
		}
		f := all[next(len(all))]
		return f.data, f.kind
	}
}

// InflateInnerCounts returns the record with the declared count of every
// counted container below the top level raised by k (the bytes of the
// containers unchanged, enclosing lengths consistent) and k zero bytes of
// padding appended. If the record does not parse it is returned unchanged.
func InflateInnerCounts(a []byte, k int) []byte {
	var root *wnode
	if kids, ok := parseMsg(a, 0); ok && len(kids) > 0 {
		root = &wnode{wt: 2, kids: kids, isMsg: true, noTag: true}
	} else if es, used, ok := parseEntries(a, 0); ok && used == len(a) && len(es) > 0 {
		root = &wnode{wt: 3, entries: es, noTag: true}
	} else {
		return a
	}
	var nodes []*wnode
	if root.isMsg {
		for _, nd := range root.kids {
			// below the top level: containers inside entries of top-level containers, and inside nested messages
			for _, e := range nd.entries {
				if e.isMsg {
					allNodes(e.kids, &nodes)
				}
			}
			if nd.isMsg {
				allNodes(nd.kids, &nodes)
			}
		}
	} else {
		for _, e := range root.entries {
			if e.isMsg {
				allNodes(e.kids, &nodes)
			}
		}
	}
	n := 0
	for _, nd := range nodes {
		if nd.entries != nil {
			nd.cntDelta = k
			n++
		}
	}
	if n == 0 {
		return a
	}
	var out []byte
	if root.isMsg {
		out = writeMsg(nil, root.kids)
	} else {
		out = writeEntries(nil, root)
	}
	return append(out, make([]byte, k)...)
}
