package props

// C04 store-fault engine (see c04 files). Placeholder types until it is built.

type StoreStats struct {
	Decodes         int `json:"decodes"`
	DistinctDamaged int `json:"distinct_damaged"`
}

func (s *StoreStats) Merge(o *StoreStats) {
	s.Decodes += o.Decodes
	s.DistinctDamaged += o.DistinctDamaged
}

type StoreCase struct{}

func ReplayStore(rf *ReplayFile) int { return 2 }
