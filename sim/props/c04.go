package props

import (
	"encoding/hex"
	"encoding/json"
	"fmt"
	"hash/fnv"
	"os"
	"reflect"
	"runtime"
	"runtime/metrics"
	"strings"
	"syscall"
	"time"
	"unsafe"

	"github.com/philpearl/plenc/plenccodec"
	"github.com/philpearl/plenc/plenccore"

	"verifsim/engine"
	"verifsim/world"
)

// C04: decoding damaged bytes is total. The simulated system is a record
// store between a writer and readers; the store damages records the way disks
// and wires do (torn / short writes, bit rot, garbage runs, misdirected and
// stale reads, dropped and duplicated blocks) and hands them to readers:
// Unmarshal into the writer's type, into an older / newer / unrelated type, and
// Descriptor-driven decoding to JSON.

// StoreCase is one damaged record handed to one reader: the replay unit.
type StoreCase struct {
	Type     string        `json:"type"`   // writer's type
	Reader   string        `json:"reader"` // reader's type (Unmarshal target or Descriptor source)
	Mode     string        `json:"mode"`   // "unmarshal" | "descriptor"
	Cfg      world.InstCfg `json:"cfg"`
	Fault    string        `json:"fault"`        // description of the injected fault
	Input    string        `json:"input_hex"`    // the damaged record
	Prev     string        `json:"prev_hex"`     // what the buffer held before (stale tail), if any
	Present  string        `json:"presentation"` // exact | stale | ff
	Original string        `json:"original_hex,omitempty"`
	// Warmup > 0: before the case, this many records with distinct interned
	// strings are decoded through the same instance (the history that the
	// allocation of the case depends on).
	Warmup int `json:"warmup_distinct_strings,omitempty"`
	// History: the store-simulator records that were run through the same
	// long-lived instances before (and including) this case. Replaying them
	// re-creates the state the finding depends on.
	History *StoreHistory `json:"history,omitempty"`
	// Scale: the case is a scale probe (records regenerated from the seed).
	Scale *ScaleCase `json:"scale,omitempty"`
	// Deep: the case is a deep probe (input rebuilt from shape and size).
	Deep *DeepCase `json:"deep,omitempty"`
}

type ScaleCase struct {
	Seed   uint64 `json:"seed"`
	Index  int    `json:"index"`
	N      int    `json:"elements"`
	Damage int    `json:"damage"`
}

type StoreHistory struct {
	Seed     uint64 `json:"seed"`
	Thorough bool   `json:"thorough"`
	Records  []int  `json:"record_indexes"`
}

type StoreStats struct {
	Records         int            `json:"records"`
	Decodes         int            `json:"decodes"`
	DistinctDamaged int            `json:"distinct_damaged"`
	ByFault         map[string]int `json:"by_fault"`
	ByMode          map[string]int `json:"by_mode"`
	Errors          int            `json:"decodes_returning_error"`
	Successes       int            `json:"decodes_returning_value"`
	HealthChecks    int            `json:"health_checks"`
	ExactAllocMeas  int            `json:"exact_alloc_measurements"`
	AllocSuspects   int            `json:"alloc_suspects_remeasured"`
	MaxSteps        int            `json:"max_steps_in_one_decode"`
	Types           map[string]int `json:"records_by_type"`
	ShortBlocks     int            `json:"unrelated_short_blocks"`
}

func (s *StoreStats) Merge(o *StoreStats) {
	s.Records += o.Records
	s.Decodes += o.Decodes
	s.DistinctDamaged += o.DistinctDamaged
	s.Errors += o.Errors
	s.Successes += o.Successes
	s.HealthChecks += o.HealthChecks
	s.ExactAllocMeas += o.ExactAllocMeas
	s.AllocSuspects += o.AllocSuspects
	s.ShortBlocks += o.ShortBlocks
	if o.MaxSteps > s.MaxSteps {
		s.MaxSteps = o.MaxSteps
	}
	if s.ByFault == nil {
		s.ByFault, s.ByMode, s.Types = map[string]int{}, map[string]int{}, map[string]int{}
	}
	for k, v := range o.ByFault {
		s.ByFault[k] += v
	}
	for k, v := range o.ByMode {
		s.ByMode[k] += v
	}
	for k, v := range o.Types {
		s.Types[k] += v
	}
}

func NewStoreStats() *StoreStats {
	return &StoreStats{ByFault: map[string]int{}, ByMode: map[string]int{}, Types: map[string]int{}}
}

// ---------------------------------------------------------------------------
// step budget: the yield hook counts; beyond the budget it panics out of the
// decode, which turns an endless loop into a deterministic violation.

type stepBudgetExceeded struct{ steps int }

var (
	stepCount  int
	stepBudget int
	stepSite   string
	// loopCount counts the iterations of every loop in plenccodec and the root
	// package (autoyield puts "auto.loop" at the top of each loop body): a loop
	// without a hand-placed hook that never ends is stopped by loopBudget.
	loopCount  int
	loopBudget int
)

// buildSites are the yield points of codec construction; they are not decode
// steps (a first use after the instance was replaced builds codecs).
var notDecodeSteps = map[string]bool{"reg.load": true, "reg.store": true, "reg.storeOrSwap": true, "struct.field": true,
	"struct.fieldDone": true, "struct.index": true, "struct.done": true, "map.build": true, "struct.append": true,
	"struct.size": true, "struct.descriptor": true, "map.size": true, "map.append": true, "slice.size": true, "slice.encode": true, "json.size": true, "json.encode": true,
	"map.iter1": true, "map.iterN": true, "map.iterEnd": true}

func stepHook(site string) {
	if len(site) == 9 && site == "auto.loop" {
		loopCount++
		if loopCount > loopBudget && loopBudget > 0 {
			stepSite = site
			loopBudget, stepBudget = 0, 0
			panic(stepBudgetExceeded{loopCount})
		}
		return
	}
	if notDecodeSteps[site] || strings.HasPrefix(site, "auto.") {
		return
	}
	stepCount++
	if stepCount > stepBudget && stepBudget > 0 {
		stepSite = site
		stepBudget = 0
		panic(stepBudgetExceeded{stepCount})
	}
}

// hangBudget words the budget a decode exceeded.
func hangBudget(site string, n int) string {
	if site == "auto.loop" {
		return fmt.Sprintf("%d loop iterations", 4000000+4096*n)
	}
	return fmt.Sprintf("%d decode steps", 64+16*n)
}

// InstallStoreHooks replaces the scheduler's hooks by the step counter.
func InstallStoreHooks() {
	plenccore.VerifHooks.Yield = stepHook
	plenccodec.VerifHooks.PoolGet = nil
	plenccodec.VerifHooks.PoolPut = nil
}

// ---------------------------------------------------------------------------

var allocSample = []metrics.Sample{{Name: "/gc/heap/allocs:bytes"}}

func allocsNow() uint64 {
	metrics.Read(allocSample)
	return allocSample[0].Value.Uint64()
}

func exactAllocs() uint64 {
	var ms runtime.MemStats
	runtime.ReadMemStats(&ms)
	return ms.TotalAlloc
}

// KFor computes the per-input-byte allocation allowance of a target type: 16
// times the largest slice element / map entry / pointee reachable in it, plus
// 64. It depends on the type only.
func KFor(t reflect.Type) int {
	seen := map[reflect.Type]bool{}
	m := maxElem(t, seen)
	return 64 + 16*m
}

func maxElem(t reflect.Type, seen map[reflect.Type]bool) int {
	if seen[t] {
		return 0
	}
	seen[t] = true
	m := 0
	up := func(x int) {
		if x > m {
			m = x
		}
	}
	switch t.Kind() {
	case reflect.Ptr:
		up(int(t.Elem().Size()))
		up(maxElem(t.Elem(), seen))
	case reflect.Slice:
		up(int(t.Elem().Size()))
		up(maxElem(t.Elem(), seen))
	case reflect.Map:
		up(2 * int(t.Key().Size()+t.Elem().Size()+16))
		up(maxElem(t.Key(), seen))
		up(maxElem(t.Elem(), seen))
	case reflect.Struct:
		for i := 0; i < t.NumField(); i++ {
			up(maxElem(t.Field(i).Type, seen))
		}
	case reflect.Interface:
		up(64) // JSON-any values
	}
	return m
}

const allocBase = 64 << 10

// ---------------------------------------------------------------------------

type storeReader struct {
	stateful bool // decodes through this reader change instance state (intern tables): measure every decode exactly
	mode     string
	ti       *world.TypeInfo
	k        int
	desc     *plenccodec.Descriptor
	jout     plenccodec.JSONOutput
	descOK   bool
}

// StoreSim is the per-worker state of the store simulator.
type StoreSim struct {
	St    *StoreStats
	insts map[world.InstCfg]world.API
	seen  map[uint64]bool
	// Soft collects history-dependent allocation findings: they are reported
	// once per reader type and the enumeration carries on.
	Soft          []SoftViolation
	softSeen      map[string]bool
	records       int
	seed          uint64
	thorough      bool
	sinceRotation []int
	CaseFile      string // if set, every case is written here before it is decoded (confirm mode)
	decodeNo      int
	curCase       *StoreCase
}

// LastCase returns the most recent case handed to a reader.
func (s *StoreSim) LastCase() *StoreCase { return s.curCase }

func NewStoreSim() *StoreSim {
	InstallStoreHooks()
	return &StoreSim{St: NewStoreStats(), insts: map[world.InstCfg]world.API{}, seen: map[uint64]bool{}}
}

func (s *StoreSim) inst(cfg world.InstCfg) world.API {
	p := s.insts[cfg]
	if p == nil {
		p = world.NewInstance(cfg)
		s.insts[cfg] = p
	}
	return p
}

type SoftViolation struct {
	V *Violation
	C *StoreCase
}

type decodeResult struct {
	err      string
	panicked string
	site     string
	steps    int
	alloc    uint64
	val      reflect.Value
	json     string
	hang     bool
}

// present builds the buffer a reader sees.
func present(input, prev []byte, how string) []byte {
	switch how {
	case "exact":
		return append(make([]byte, 0, len(input)), input...)
	case "stale":
		n := len(input) + 64
		if len(prev) > n {
			n = len(prev)
		}
		b := make([]byte, n)
		for i := range b {
			b[i] = 0x5A
		}
		copy(b, prev)
		copy(b, input)
		// what lies beyond the record is the rest of the previous one
		return b[:len(input)]
	default: // ff
		b := make([]byte, len(input)+64)
		for i := range b {
			b[i] = 0xFF
		}
		copy(b, input)
		return b[:len(input)]
	}
}

func (s *StoreSim) decodeOnce(p world.API, rd *storeReader, buf []byte, exact bool) (res decodeResult) {
	stepCount = 0
	stepBudget = 64 + 16*len(buf)
	// loop iterations: legitimately proportional to the input or to what the
	// (long-lived, re-used) readers already hold, never millions per input byte
	loopCount = 0
	loopBudget = 4000000 + 4096*len(buf)
	var a0 uint64
	if exact {
		a0 = exactAllocs()
	} else {
		a0 = allocsNow()
	}
	func() {
		defer func() {
			if r := recover(); r != nil {
				if _, ok := r.(stepBudgetExceeded); ok {
					res.hang = true
					res.site = stepSite
					return
				}
				st := stackString()
				res.panicked = fmt.Sprint(r)
				res.site = panicSite(st)
			}
		}()
		if rd.mode == "descriptor" {
			rd.jout.Reset()
			err := rd.desc.Read(&rd.jout, buf)
			if err != nil {
				res.err = err.Error()
			} else {
				res.json = string(rd.jout.Done())
			}
			return
		}
		out := reflect.New(rd.ti.T)
		err := p.Unmarshal(buf, out.Interface())
		if err != nil {
			res.err = err.Error()
		}
		res.val = out.Elem()
	}()
	stepBudget, loopBudget = 0, 0
	res.steps = stepCount
	if exact {
		res.alloc = exactAllocs() - a0
	} else {
		res.alloc = allocsNow() - a0
	}
	return res
}

// differs reports whether two decodes of the same input disagree.
func differs(rd *storeReader, x, y decodeResult) bool {
	if (x.err == "") != (y.err == "") {
		return true
	}
	if x.err != "" {
		return false
	}
	if rd.mode == "descriptor" {
		return x.json != y.json
	}
	if !x.val.IsValid() || !y.val.IsValid() {
		return x.val.IsValid() != y.val.IsValid()
	}
	ok, _ := world.Equal(x.val, y.val)
	return !ok
}

func violStore(kind, site, msg string, c *StoreCase) *Violation {
	return &Violation{Prop: "C04", Kind: kind, Task: -1, OpIdx: -1, OpKind: c.Mode, Type: c.Reader, Site: site, Msg: msg}
}

// RunCase hands one damaged record to one reader under the three
// presentations and checks the invariants. It returns the first violation.
func (s *StoreSim) RunCase(c *StoreCase, input, prev []byte, rd *storeReader) (*Violation, string) {
	p := s.inst(c.Cfg)
	h := fnv.New64a()
	h.Write(input)
	h.Write([]byte(c.Reader + c.Mode))
	if k := h.Sum64(); !s.seen[k] {
		s.seen[k] = true
		s.St.DistinctDamaged++
	}
	bound := uint64(allocBase + rd.k*len(input))
	var first decodeResult
	for pi, how := range []string{"exact", "stale", "ff"} {
		if rd.mode == "descriptor" && how == "stale" {
			continue
		}
		c.Present = how
		s.curCase = c
		if s.CaseFile != "" {
			b, _ := json.Marshal(c)
			os.WriteFile(s.CaseFile, b, 0o644)
		}
		buf := present(input, prev, how)
		s.decodeNo++
		if s.decodeNo%50000 == 0 {
			os.Stderr.WriteString(".") // progress for the parent's silence watchdog
		}
		exact := s.decodeNo%16 == 0 || rd.stateful
		res := s.decodeOnce(p, rd, buf, exact)
		s.St.Decodes++
		s.St.ByMode[c.Mode]++
		if exact {
			s.St.ExactAllocMeas++
		}
		if res.steps > s.St.MaxSteps {
			s.St.MaxSteps = res.steps
		}
		if res.hang {
			return violStore("hang", res.site, fmt.Sprintf("decode of a %d-byte input did not finish within %s (loop at %s)", len(input), hangBudget(res.site, len(input)), res.site), c), how
		}
		if res.panicked != "" {
			return violStore("panic", res.site, fmt.Sprintf("panic: %s at %s", res.panicked, res.site), c), how
		}
		if string(buf) != string(input) {
			return violStore("alias", "", "the decoder modified its input", c), how
		}
		if res.alloc > bound {
			// suspect: measure again exactly
			s.St.AllocSuspects++
			res2 := res
			if !exact {
				res2 = s.decodeOnce(p, rd, present(input, prev, how), true)
			}
			if res2.alloc > bound && res2.panicked == "" && !res2.hang {
				// does the excess come from the input, or from what this
				// long-lived instance decoded before?
				fresh := s.decodeOnce(world.NewInstance(c.Cfg), rd, present(input, prev, how), true)
				InstallStoreHooks()
				if fresh.alloc <= bound {
					if s.softSeen == nil {
						s.softSeen = map[string]bool{}
					}
					if !s.softSeen[c.Reader] {
						s.softSeen[c.Reader] = true
						cc := *c
						cc.Present = how
						if cc.Warmup == 0 {
							cc.History = &StoreHistory{Seed: s.seed, Thorough: s.thorough, Records: append([]int(nil), s.sinceRotation...)}
						}
						s.Soft = append(s.Soft, SoftViolation{softViol(len(input), res2.alloc, bound, fresh.alloc, rd, &cc), &cc})
					}
				} else if lv, ok := errorChain(res2.err); ok {
					return violStore("blowup-errorchain", "", fmt.Sprintf("decoding a %d-byte input allocated %d bytes (allowance %d): the decode failed %d levels deep and every level wrapped the error text of the level below", len(input), res2.alloc, bound, lv), c), how
				} else {
					return violStore("blowup", "", fmt.Sprintf("decoding a %d-byte input allocated %d bytes (allowance %d = 64KiB + %d per input byte)", len(input), res2.alloc, bound, rd.k), c), how
				}
			}
		}
		if res.err != "" {
			s.St.Errors++
		} else {
			s.St.Successes++
		}
		if pi == 0 {
			first = res
			continue
		}
		// reads nothing outside the input: what lies beyond len must not matter.
		// A disagreement seen on the long-lived instance is re-examined with a
		// brand-new instance per presentation, so that state carried over from
		// the previous decode (C10's business) is not mistaken for an over-read.
		if differs(rd, res, first) {
			a := s.decodeOnce(world.NewInstance(c.Cfg), rd, present(input, prev, "exact"), false)
			b := s.decodeOnce(world.NewInstance(c.Cfg), rd, present(input, prev, how), false)
			InstallStoreHooks()
			if !differs(rd, a, b) && a.panicked == "" && b.panicked == "" {
				s.St.ByFault["history_dependent_result_ignored"]++
				continue
			}
			res, first = b, a
		}
		if (res.err == "") != (first.err == "") {
			return violStore("overread", "", fmt.Sprintf("result depends on bytes beyond the input: with exact capacity error=%q, with spare capacity (%s) error=%q", first.err, how, res.err), c), how
		}
		if res.err == "" {
			if rd.mode == "descriptor" {
				if res.json != first.json {
					return violStore("overread", "", "descriptor output depends on bytes beyond the input", c), how
				}
			} else if ok, path := world.Equal(res.val, first.val); !ok {
				return violStore("overread", "", "decoded value depends on bytes beyond the input, at "+path, c), how
			}
		}
	}
	return nil, ""
}

func softViol(n int, alloc, bound, fresh uint64, rd *storeReader, c *StoreCase) *Violation {
	return violStore("blowup-history", "", fmt.Sprintf("decoding a %d-byte input allocated %d bytes on the long-lived instance (allowance %d) but %d on a brand-new one: allocation grows with what the instance decoded before%s", n, alloc, bound, fresh, internNote(rd.ti.T)), c)
}

// errorChain recognises the one input-dependent allocation that is not a
// decoder sizing something from the input: every nesting level wraps the error
// of the level below into a new, longer text (fmt.Errorf("... %w")), so a
// decode that fails d levels deep builds O(d^2) bytes of error text.
//
// Recognised by its shape, not by plenc's wording (which a harmless change may
// alter): a long text in which one 16-byte phrase recurs dozens of times.
func errorChain(errText string) (levels int, ok bool) {
	if len(errText) < 2048 {
		return 0, false
	}
	for _, at := range []int{len(errText) / 4, len(errText) / 2, 3 * len(errText) / 4} {
		if n := strings.Count(errText, errText[at:at+16]); n > levels {
			levels = n
		}
	}
	return levels, levels >= 48
}

// internNote names the one mechanism in plenc whose allocation depends on
// history, when the reader's type uses it.
func internNote(t reflect.Type) string {
	if hasIntern(t, map[reflect.Type]bool{}) {
		return " (the type has interned string fields: the copy-on-write intern table is copied in full for every new string)"
	}
	return ""
}

func hasIntern(t reflect.Type, seen map[reflect.Type]bool) bool {
	if seen[t] {
		return false
	}
	seen[t] = true
	switch t.Kind() {
	case reflect.Ptr, reflect.Slice:
		return hasIntern(t.Elem(), seen)
	case reflect.Map:
		return hasIntern(t.Key(), seen) || hasIntern(t.Elem(), seen)
	case reflect.Struct:
		for i := 0; i < t.NumField(); i++ {
			if strings.HasSuffix(t.Field(i).Tag.Get("plenc"), ",intern") || hasIntern(t.Field(i).Type, seen) {
				return true
			}
		}
	}
	return false
}

// HistoryProbe demonstrates deterministically the one history-dependent
// allocation: n records with distinct interned strings are decoded through a
// long-lived instance, then one more small record.
func (s *StoreSim) HistoryProbe(idx int) (*Violation, *StoreCase) {
	cfg := world.Configs[idx%len(world.Configs)]
	c := &StoreCase{Type: "Sym", Reader: "Sym", Mode: "unmarshal", Cfg: cfg, Fault: "none: valid record after a history of distinct interned strings", Warmup: 1500 + 500*(idx/len(world.Configs))}
	rec, _, _ := soloMarshal(cfg, &world.Sym{A: "one-more-new-string"})
	c.Input = hex.EncodeToString(rec)
	v := s.runWithWarmup(c)
	if v == nil && len(s.Soft) > 0 {
		sv := s.Soft[len(s.Soft)-1]
		s.Soft = s.Soft[:len(s.Soft)-1]
		delete(s.softSeen, c.Reader)
		return sv.V, c
	}
	return v, c
}

func (s *StoreSim) runWithWarmup(c *StoreCase) *Violation {
	p := s.inst(c.Cfg)
	for i := 0; i < c.Warmup; i++ {
		b, _, _ := soloMarshal(c.Cfg, &world.Sym{A: fmt.Sprintf("warm-%d", i)})
		var out world.Sym
		if err := p.Unmarshal(b, &out); err != nil {
			panic(HarnessError{"warm-up decode failed: " + err.Error()})
		}
	}
	InstallStoreHooks()
	in, _ := hex.DecodeString(c.Input)
	prev, _ := hex.DecodeString(c.Prev)
	var rd *storeReader
	for _, r := range s.readersFor(c.Reader, c.Cfg) {
		if r.mode == c.Mode && r.ti.Name == c.Reader {
			rd = r
		}
	}
	if rd == nil {
		panic(HarnessError{"no reader for stored case"})
	}
	cc := *c
	v, _ := s.RunCase(&cc, in, prev, rd)
	return v
}

// ---------------------------------------------------------------------------
// fault enumeration

type fault struct {
	kind string
	desc string
	data []byte
}

var maxVarint = []byte{0xFF, 0xFF, 0xFF, 0xFF, 0xFF, 0xFF, 0xFF, 0xFF, 0xFF, 0x01}

// EnumerateFaults lists every single-fault damage of record a (b is a second
// record of the same type, for misdirected reads). thorough adds all splice
// offsets and more block operations.
func EnumerateFaults(a, b []byte, thorough bool, emit func(f fault) bool) {
	n := len(a)
	cp := func() []byte { return append([]byte(nil), a...) }
	// torn / short write: every truncation point
	for k := 0; k < n; k++ {
		if !emit(fault{"truncate", fmt.Sprintf("torn write: cut at byte %d of %d", k, n), append([]byte(nil), a[:k]...)}) {
			return
		}
	}
	// bit rot: every single bit
	for i := 0; i < n; i++ {
		for bit := 0; bit < 8; bit++ {
			d := cp()
			d[i] ^= 1 << uint(bit)
			if !emit(fault{"bitflip", fmt.Sprintf("bit rot: bit %d of byte %d flipped", bit, i), d}) {
				return
			}
		}
	}
	// byte forced
	for i := 0; i < n; i++ {
		for _, v := range []byte{0x00, 0x7F, 0x80, 0xFF} {
			if a[i] == v {
				continue
			}
			d := cp()
			d[i] = v
			if !emit(fault{"byteforce", fmt.Sprintf("byte %d forced to %02X", i, v), d}) {
				return
			}
		}
	}
	// garbage runs inserted / overwriting
	for i := 0; i <= n; i++ {
		d := append(append(append([]byte(nil), a[:i]...), maxVarint...), a[i:]...)
		if !emit(fault{"insert_maxvarint", fmt.Sprintf("maximal varint inserted at %d", i), d}) {
			return
		}
		d = append(append(append([]byte(nil), a[:i]...), make([]byte, 8)...), a[i:]...)
		if !emit(fault{"insert_zeros", fmt.Sprintf("8 zero bytes inserted at %d", i), d}) {
			return
		}
		if i < n {
			d = cp()
			copy(d[i:], maxVarint)
			if !emit(fault{"overwrite_maxvarint", fmt.Sprintf("maximal varint written over offset %d", i), d}) {
				return
			}
		}
	}
	// counts and lengths of every magnitude: a varint encoding 2^k (+-1) written over each offset
	for _, k := range []uint{7, 14, 20, 21, 28, 31, 32, 35, 56, 62, 63} {
		for _, delta := range []int64{-1, 0, 1} {
			v := uint64(int64(uint64(1)<<k) + delta)
			var vb []byte
			for x := v; ; x >>= 7 {
				if x < 0x80 {
					vb = append(vb, byte(x))
					break
				}
				vb = append(vb, byte(x)|0x80)
			}
			for i := 0; i < n; i++ {
				if !thorough && (i+int(k))%3 != 0 {
					continue // quick: every third offset, staggered by magnitude
				}
				d := append(append(append([]byte(nil), a[:i]...), vb...), a[min(n, i+1):]...)
				if !emit(fault{"replace_with_varint", fmt.Sprintf("byte %d replaced by the varint of %d", i, v), d}) {
					return
				}
			}
		}
	}
	// dropped and duplicated blocks
	sizes := []int{1, 2, 4}
	if thorough {
		sizes = []int{1, 2, 3, 4, 8, 16}
	}
	for _, k := range sizes {
		for i := 0; i+k <= n; i++ {
			d := append(append([]byte(nil), a[:i]...), a[i+k:]...)
			if !emit(fault{"drop_block", fmt.Sprintf("%d bytes dropped at %d", k, i), d}) {
				return
			}
			d = append(append(append([]byte(nil), a[:i+k]...), a[i:i+k]...), a[i+k:]...)
			if !emit(fault{"dup_block", fmt.Sprintf("%d bytes at %d written twice", k, i), d}) {
				return
			}
		}
	}
	// misdirected / stale read: prefix of a + suffix of b
	if len(b) > 0 {
		for i := 0; i <= n; i++ {
			js := []int{i}
			if thorough {
				// all offsets of the other record for short records, every 5th otherwise
				js = js[:0]
				step := 1
				if n*len(b) > 64*64 {
					step = 5
				}
				for j := i % step; j <= len(b); j += step {
					js = append(js, j)
				}
				js = append(js, i)
			} else if i <= len(b) {
				js = append(js, len(b)-((n-i)%(len(b)+1)))
			}
			for _, j := range js {
				if j < 0 || j > len(b) {
					continue
				}
				d := append(append([]byte(nil), a[:i]...), b[j:]...)
				if !emit(fault{"splice", fmt.Sprintf("misdirected read: first %d bytes of this record, then the other record from %d", i, j), d}) {
					return
				}
			}
		}
	}
}

// ---------------------------------------------------------------------------
// records

// storeTypes are the writer types; readers are the same type, version
// siblings and a few unrelated types (misdirected read).
func storeTypes(cfg world.InstCfg) []string {
	var out []string
	for _, ti := range world.TypeList {
		if !world.ShapeOK(ti, cfg) {
			continue
		}
		out = append(out, ti.Name)
	}
	return out
}

var versionSiblings = map[string][]string{
	"V0": {"V1", "V2"}, "V1": {"V0", "V2"}, "V2": {"V0", "V1", "Wide"}, "Sparse": {"SparseNew", "V1"}, "SparseNew": {"Sparse", "Wide"},
	"Wide": {"V2", "Maps"}, "Inner": {"Small", "KeyS"}, "Sym": {"SymTwin", "Inner"}, "SymTwin": {"Sym"},
	"Maps": {"Wide", "JDoc"}, "JDoc": {"Maps", "V1", "JArr"}, "JArr": {"JDoc", "JNest"}, "JNest": {"JDoc", "Maps"}, "[]any": {"[]string", "map[string]any"}, "map[string]any": {"MapSI", "[]any"}, "Node": {"Tree", "RA"}, "Tree": {"Node"},
	"MTarget": {"Wide"}, "Nest": {"Wide", "Maps"}, "NestD": {"Nest", "Maps"}, "[][]int": {"[]int", "[]string"}, "map[string][]int": {"MapSI", "Tags"}, "IDs": {"[]int"}, "Tags": {"MapSI"}, "[]null.Int": {"[]int"}, "OnlyMap": {"Tags"}, "RA": {"RB"}, "RB": {"RC"}, "RC": {"RA"}, "Small": {"Inner", "KeyS"},
	"MapKS": {"MapKV", "MapSI"}, "MapKV": {"MapKS"}, "MapSI": {"MapKS", "[]string"},
	"[]string": {"[][]byte", "[]Inner"}, "[]int": {"[]float64", "MyBytes"}, "[]float64": {"[]int"},
	"[]Inner": {"[]string", "[]*Node"}, "[]*Node": {"[]Inner"}, "RootA": {"RootB"}, "RootB": {"RootC"}, "RootC": {"RootA"},
}

func (s *StoreSim) readersFor(tn string, cfg world.InstCfg) []*storeReader {
	var out []*storeReader
	add := func(name string) {
		ti := world.Types[name]
		if ti == nil || ti.Bad {
			return
		}
		if cfg.ProtoArrays && !world.ShapeOK(ti, cfg) {
			return
		}
		out = append(out, &storeReader{mode: "unmarshal", ti: ti, k: KFor(ti.T), stateful: hasIntern(ti.T, map[reflect.Type]bool{})})
		if !world.IsRecursive(ti.T) {
			c, err := s.inst(cfg).CodecForType(ti.T)
			if err == nil {
				d := c.Descriptor()
				out = append(out, &storeReader{mode: "descriptor", ti: ti, k: KFor(ti.T) + 256, desc: &d})
			}
		}
	}
	add(tn)
	for _, sib := range versionSiblings[tn] {
		add(sib)
	}
	return out
}

// StoreRecord runs the full single-fault enumeration for record index idx.
func (s *StoreSim) StoreRecord(seed uint64, idx int, thorough bool) (*Violation, *StoreCase) {
	s.records++
	s.seed, s.thorough = seed, thorough
	if s.records%40 == 0 {
		// the long-lived instances are replaced now and then so that the cost
		// of the (known) intern-table growth stays bounded
		s.insts = map[world.InstCfg]world.API{}
		s.sinceRotation = nil
	}
	s.sinceRotation = append(s.sinceRotation, idx)
	r := engine.PRNG{S: engine.Mix(seed, 0xC04, uint64(idx))}
	cfg := world.Configs[idx%len(world.Configs)]
	types := storeTypes(cfg)
	tn := types[(idx/len(world.Configs))%len(types)]
	ti := world.Types[tn]
	maxLen := 160
	if thorough {
		maxLen = 700
	}
	var rec, rec2 []byte
	for try := 0; try < 20; try++ {
		size := 2 + r.Intn(14)
		if thorough {
			size = 2 + r.Intn(40)
		}
		v := world.Gen(ti.T, &r, world.GenOpts{Size: size})
		b, errs, pan := soloMarshal(cfg, v.Addr().Interface())
		if pan != "" || errs != "" || len(b) == 0 || len(b) > maxLen {
			continue
		}
		cb, err := world.Canon(ti.T, b)
		if err != nil {
			continue
		}
		if rec == nil {
			rec = cb
		} else {
			rec2 = cb
			break
		}
	}
	if rec == nil {
		return nil, nil
	}
	s.St.Records++
	s.St.Types[tn]++
	readers := s.readersFor(tn, cfg)
	var viol *Violation
	var vcase *StoreCase
	prev := rec2
	if prev == nil {
		prev = rec
	}
	handle := func(f fault) bool {
		s.St.ByFault[f.kind]++
		for _, rd := range readers {
			c := &StoreCase{Type: tn, Reader: rd.ti.Name, Mode: rd.mode, Cfg: cfg, Fault: f.desc, Input: hex.EncodeToString(f.data), Prev: hex.EncodeToString(prev), Original: hex.EncodeToString(rec)}
			if v, _ := s.RunCase(c, f.data, prev, rd); v != nil {
				viol, vcase = v, c
				return false
			}
		}
		return true
	}
	EnumerateFaults(rec, rec2, thorough, handle)
	if viol == nil {
		EnumerateStructFaults(rec, thorough, handle)
	}
	if viol != nil {
		return viol, vcase
	}
	return nil, nil
}

// ShortBlocks feeds unrelated short blocks (every string of length <= 2, and
// length 3-4 over a boundary alphabet) to one reader type.
func (s *StoreSim) ShortBlocks(idx int, thorough bool) (*Violation, *StoreCase) {
	cfg := world.Configs[idx%len(world.Configs)]
	types := storeTypes(cfg)
	tn := types[(idx/len(world.Configs))%len(types)]
	readers := s.readersFor(tn, cfg)[:1]
	if rs := s.readersFor(tn, cfg); len(rs) > 1 && rs[1].mode == "descriptor" {
		readers = rs[:2]
	}
	alphabet := []byte{0x00, 0x01, 0x02, 0x08, 0x0A, 0x0B, 0x12, 0x1A, 0x1B, 0x7F, 0x80, 0x81, 0xFF}
	run := func(d []byte) (*Violation, *StoreCase) {
		s.St.ShortBlocks++
		s.St.ByFault["short_block"]++
		for _, rd := range readers {
			c := &StoreCase{Type: tn, Reader: rd.ti.Name, Mode: rd.mode, Cfg: cfg, Fault: "misdirected read: unrelated short block", Input: hex.EncodeToString(d)}
			if v, _ := s.RunCase(c, d, nil, rd); v != nil {
				return v, c
			}
		}
		return nil, nil
	}
	if v, c := run(nil); v != nil {
		return v, c
	}
	for a := 0; a < 256; a++ {
		if v, c := run([]byte{byte(a)}); v != nil {
			return v, c
		}
	}
	step := 1
	if !thorough {
		step = 7 // quick: every 7th two-byte string, offset by the index so that runs differ
	}
	for x := idx % step; x < 65536; x += step {
		if v, c := run([]byte{byte(x >> 8), byte(x)}); v != nil {
			return v, c
		}
	}
	for _, a := range alphabet {
		for _, b := range alphabet {
			for _, c3 := range alphabet {
				if v, c := run([]byte{a, b, c3}); v != nil {
					return v, c
				}
				if thorough {
					for _, d4 := range alphabet {
						if v, c := run([]byte{a, b, c3, d4}); v != nil {
							return v, c
						}
					}
				}
			}
		}
	}
	return nil, nil
}

// ---------------------------------------------------------------------------
// scale probe: "terminates promptly" and "a fixed multiple of the input
// length" are statements about growth. Records with N, 4N, 16N ... elements
// are decoded (valid and damaged) and the cost per input byte must not grow.

var scaleTypes = []string{"Tree", "MapTree", "Nest", "NestD", "[][]int", "map[string][]int", "[]Inner", "[]string", "[]int", "[][]byte", "[]*Node", "MapSI", "MapKS", "MapKV", "Wide", "JDoc", "V2", "[]float64", "Maps", "MTarget", "SymBox", "Node", "RootA"}

// chainTypes are probed as deep chains instead of wide containers.
var chainTypes = map[string]bool{"Tree": true, "RA": true, "MapTree": true}

type scalePoint struct {
	steps   int
	n, size int
	nanos   int64
	alloc   uint64
}

// ScaleJobs is the number of scale probes.
func ScaleJobs() int { return 2 * len(scaleTypes) }

func (s *StoreSim) ScaleProbe(seed uint64, idx int, thorough bool) (*Violation, *StoreCase) {
	runtime.LockOSThread() // the CPU-time clock is per OS thread
	defer runtime.UnlockOSThread()
	cfg := world.InstCfg{}
	if idx%2 == 1 {
		cfg = world.InstCfg{ProtoArrays: true, ProtoTime: true}
	}
	tn := scaleTypes[(idx/2)%len(scaleTypes)]
	ti := world.Types[tn]
	if !world.ShapeOK(ti, cfg) {
		return nil, nil
	}
	sizes := []int{256, 1024, 4096}
	if thorough {
		sizes = []int{256, 1024, 4096, 16384}
	}
	var rd *storeReader
	for _, r := range s.readersFor(tn, cfg) {
		if r.mode == "unmarshal" && r.ti.Name == tn {
			rd = r
		}
	}
	if rd == nil {
		return nil, nil
	}
	damage := []struct {
		name string
		f    func(b []byte) []byte
	}{
		{"valid", func(b []byte) []byte { return b }},
		{"cut at half", func(b []byte) []byte { return b[:len(b)/2] }},
		{"cut one byte short", func(b []byte) []byte { return b[:len(b)-1] }},
		{"bit flip at a quarter", func(b []byte) []byte { c := append([]byte(nil), b...); c[len(c)/4] ^= 0x10; return c }},
		{"zeros from three quarters", func(b []byte) []byte {
			c := append([]byte(nil), b...)
			for i := len(c) * 3 / 4; i < len(c); i++ {
				c[i] = 0
			}
			return c
		}},
	}
	chainedAt := make([]bool, len(damage)+2)
	points := make([][]scalePoint, len(damage)+2)
	inputs := make([][][]byte, len(damage)+2)
	for _, n := range sizes {
		r := engine.PRNG{S: engine.Mix(seed, 0x5CA1E, uint64(idx), uint64(n))}
		v := world.Gen(ti.T, &r, world.GenOpts{Size: 8, Fanout: n, ZeroPct: 20})
		if chainTypes[tn] {
			// a self-referential type nested n levels deep: recursion depth, not width
			cv, ok := world.Chain(ti.T, &r, n)
			if !ok {
				return nil, nil
			}
			v = cv
		}
		rec, errs, pan := soloMarshal(cfg, v.Addr().Interface())
		InstallStoreHooks()
		if pan != "" || errs != "" || len(rec) < n {
			return nil, nil
		}
		s.St.Records++
		s.St.Types[tn]++
		// misdirected append: the record followed by many tiny records of the same
		// struct type (every field then occurs again and again in one message)
		var tail []byte
		if ti.T.Kind() == reflect.Struct {
			tv := world.Gen(ti.T, &r, world.GenOpts{Size: 6, Fanout: 1, ZeroPct: 10})
			if tb, terr, tpan := soloMarshal(cfg, tv.Addr().Interface()); tpan == "" && terr == "" && len(tb) > 0 && len(tb) < 4096 {
				for len(tail) < 3*len(rec) {
					tail = append(tail, tb...)
				}
			}
			InstallStoreHooks()
		}
		for di := 0; di <= len(damage)+1; di++ {
			var d struct {
				name string
				f    func(b []byte) []byte
			}
			if di < len(damage) {
				d = damage[di]
			} else if di == len(damage) && tail != nil {
				d.name, d.f = "followed by many tiny records", func(b []byte) []byte { return append(append([]byte(nil), b...), tail...) }
			} else if di == len(damage)+1 {
				// a writer whose every inner container claims n/2 more elements than it wrote, plus padding
				d.name, d.f = "every inner count inflated", func(b []byte) []byte { return InflateInnerCounts(b, n/2) }
			} else {
				continue
			}
			if chainedAt[di] {
				// the listed error-chain finding already showed at a smaller size for this damage:
				// four times the depth is sixteen times the text (gigabytes), and nothing new
				continue
			}
			input := d.f(rec)
			c := &StoreCase{Type: tn, Reader: tn, Mode: "unmarshal", Cfg: cfg, Fault: fmt.Sprintf("scale probe: %d elements, %s", n, d.name), Scale: &ScaleCase{Seed: seed, Index: idx, N: n, Damage: di}}
			s.St.ByFault["scale_"+strings.ReplaceAll(d.name, " ", "_")]++
			s.curCase = c
			if s.CaseFile != "" {
				cb, _ := json.Marshal(c)
				os.WriteFile(s.CaseFile, cb, 0o644)
			}
			best := int64(1 << 62)
			var alloc uint64
			lastSteps := 0
			chained := false
			for rep := 0; rep < 3; rep++ {
				buf := present(input, nil, "exact")
				t0 := nanotime()
				res := s.decodeOnce(s.inst(cfg), rd, buf, true)
				dt := nanotime() - t0
				s.St.Decodes++
				if res.hang {
					return violStore("hang", res.site, fmt.Sprintf("decode of a %d-byte input (%s) did not finish within %s (loop at %s)", len(input), c.Fault, hangBudget(res.site, len(input)), res.site), c), c
				}
				if res.panicked != "" {
					return violStore("panic", res.site, fmt.Sprintf("panic: %s at %s (%s)", res.panicked, res.site, c.Fault), c), c
				}
				// Every decode step starts an item that occupies at least one input byte
				// (a map entry adds two more): a decoder that stays linear takes at most
				// about 3 steps per byte. On large inputs more than 4 means the work no
				// longer follows the input.
				if len(input) >= 16<<10 && res.steps > 64+4*len(input) {
					return violStore("slow", "", fmt.Sprintf("decode of a %d-byte input took %d decode steps, more than 4 per input byte (%s)", len(input), res.steps, c.Fault), c), c
				}
				bound := uint64(allocBase + rd.k*len(input))
				if res.alloc > bound {
					if lv, ok := errorChain(res.err); ok {
						// a listed finding of its own kind: note it once per reader and carry on
						if s.softSeen == nil {
							s.softSeen = map[string]bool{}
						}
						if !s.softSeen["errorchain:"+tn] {
							s.softSeen["errorchain:"+tn] = true
							cc := *c
							s.Soft = append(s.Soft, SoftViolation{violStore("blowup-errorchain", "", fmt.Sprintf("decoding a %d-byte input (%s) allocated %d bytes (allowance %d): the decode failed %d levels deep and every level wrapped the error text of the level below (final text %d bytes)", len(input), c.Fault, res.alloc, bound, lv, len(res.err)), &cc), &cc})
						}
						chained = true
						chainedAt[di] = true
						break
					}
					return violStore("blowup", "", fmt.Sprintf("decoding a %d-byte input (%s) allocated %d bytes (allowance %d)", len(input), c.Fault, res.alloc, bound), c), c
				}
				if dt < best {
					best = dt
				}
				alloc = res.alloc
				lastSteps = res.steps
			}
			if chained {
				continue // the listed error-chain finding: no growth point from this input
			}
			points[di] = append(points[di], scalePoint{n: n, size: len(input), nanos: best, alloc: alloc, steps: lastSteps})
			if len(inputs[di]) == 0 || n == sizes[len(sizes)-1] {
				inputs[di] = append(inputs[di], input) // the two ends, for re-measurement
			}
			if os.Getenv("VERIF_DEBUG_SCALE") != "" {
				fmt.Fprintf(os.Stderr, "scale %s cfg=%v n=%d %q size=%d steps=%d alloc=%d ns=%d\n", tn, cfg, n, d.name, len(input), lastSteps, alloc, best)
			}
		}
	}
	// growth: cost per decode step (how far a damaged decode gets is not
	// proportional to its size, so bytes are not the right denominator) at the
	// largest size against the smallest
	for di, ps := range points {
		if len(ps) < 2 {
			continue
		}
		a, b := ps[0], ps[len(ps)-1]
		if a.steps < 200 || b.steps < 4*a.steps {
			continue
		}
		ta := float64(a.nanos) / float64(a.steps)
		tb := float64(b.nanos) / float64(b.steps)
		ma := float64(a.alloc+4096) / float64(a.steps)
		mb := float64(b.alloc+4096) / float64(b.steps)
		dname := "followed by many tiny records"
		if di < len(damage) {
			dname = damage[di].name
		} else if di == len(damage)+1 {
			dname = "every inner count inflated"
		}
		c := &StoreCase{Type: tn, Reader: tn, Mode: "unmarshal", Cfg: cfg, Fault: "scale probe: " + dname, Scale: &ScaleCase{Seed: seed, Index: idx, N: b.n, Damage: di}}
		if mb > 8*ma && b.alloc > 4<<20 {
			return violStore("blowup", "", fmt.Sprintf("allocation per decode step grows with the input: %d bytes over %d steps for a %d-byte input but %d bytes over %d steps for a %d-byte input (%s)", a.alloc, a.steps, a.size, b.alloc, b.steps, b.size, dname), c), c
		}
		if tb > 3.5*ta && b.nanos > 20e6 {
			// suspect: measure both ends again, best of five each, before believing the clock
			s.St.AllocSuspects++
			a2, b2 := s.remeasure(rd, cfg, inputs[di][0], 5), s.remeasure(rd, cfg, inputs[di][len(inputs[di])-1], 5)
			if a2 <= 0 || b2 <= 0 || float64(b2)/float64(b.steps) <= 3.5*float64(a2)/float64(a.steps) {
				continue
			}
			a.nanos, b.nanos = a2, b2
			return violStore("slow", "", fmt.Sprintf("decode time per step grows with the input: %d ns over %d steps for %d bytes but %d ns over %d steps for %d bytes (%s)", a.nanos, a.steps, a.size, b.nanos, b.steps, b.size, dname), c), c
		}
	}
	return nil, nil
}

// nanotime is the CPU time consumed by the calling OS thread
// (CLOCK_THREAD_CPUTIME_ID), not wall time: what other processes do to the
// machine barely moves it. The store worker runs locked to one OS thread.
func nanotime() int64 {
	var ts syscall.Timespec
	if _, _, e := syscall.Syscall(syscall.SYS_CLOCK_GETTIME, 3, uintptr(unsafe.Pointer(&ts)), 0); e != 0 {
		return time.Now().UnixNano()
	}
	return ts.Sec*1e9 + ts.Nsec
}

// remeasure decodes input reps times and returns the best wall time.
func (s *StoreSim) remeasure(rd *storeReader, cfg world.InstCfg, input []byte, reps int) int64 {
	best := int64(-1)
	for i := 0; i < reps; i++ {
		buf := present(input, nil, "exact")
		t0 := nanotime()
		res := s.decodeOnce(s.inst(cfg), rd, buf, false)
		dt := nanotime() - t0
		if res.panicked != "" || res.hang {
			return -1
		}
		if best < 0 || dt < best {
			best = dt
		}
	}
	return best
}

// ---------------------------------------------------------------------------
// replay and minimisation

func sigOf(v *Violation) string {
	msg := v.Msg
	if i := strings.Index(msg, "[:"); i > 0 {
		msg = msg[:i]
	}
	return v.Kind + "|" + v.Site
}

// RunStoreCase decodes one stored case on a fresh simulator, after re-creating
// its history if it has one.
func RunStoreCase(c *StoreCase) *Violation {
	s := NewStoreSim()
	if c.Deep != nil {
		v, _ := s.deepCase(c.Type, c.Deep.Shape, c.Mode, c.Deep.Bytes, c.Deep.MaxStackMB, c.Cfg)
		return v
	}
	if c.Scale != nil {
		// the growth measurement involves the real clock: best of three tries
		for try := 0; try < 3; try++ {
			if v, _ := s.ScaleProbe(c.Scale.Seed, c.Scale.Index, c.Scale.N > 4096); v != nil {
				return v
			}
			if len(s.Soft) > 0 {
				return s.Soft[0].V
			}
		}
		return nil
	}
	if c.History != nil {
		for _, idx := range c.History.Records {
			if v, _ := s.StoreRecord(c.History.Seed, idx, c.History.Thorough); v != nil {
				return v
			}
		}
		for _, sv := range s.Soft {
			if sv.C.Reader == c.Reader {
				return sv.V
			}
		}
		return nil
	}
	v := s.runWithWarmup(c)
	if v == nil && len(s.Soft) > 0 {
		return s.Soft[0].V
	}
	return v
}

// MinimiseStore delta-debugs the input bytes while the same (kind, site)
// persists.
func MinimiseStore(c *StoreCase, v *Violation) (*StoreCase, *Violation, string) {
	want := sigOf(v)
	best := *c
	bestV := v
	in, _ := hex.DecodeString(c.Input)
	tries := 0
	test := func(d []byte) *Violation {
		tries++
		cc := best
		cc.Input = hex.EncodeToString(d)
		vv := RunStoreCase(&cc)
		if vv != nil && sigOf(vv) == want {
			return vv
		}
		return nil
	}
	for chunk := len(in) / 2; chunk >= 1 && tries < 400; chunk /= 2 {
		for i := 0; i+chunk <= len(in) && tries < 400; {
			d := append(append([]byte(nil), in[:i]...), in[i+chunk:]...)
			if vv := test(d); vv != nil {
				in = d
				bestV = vv
			} else {
				i += chunk
			}
		}
	}
	best.Input = hex.EncodeToString(in)
	return &best, bestV, fmt.Sprintf("input reduced from %d to %d bytes in %d executions", len(c.Input)/2, len(in), tries)
}

// ReplayStore re-executes a stored case. Crash and hang cases are run in the
// calling process: the caller (replay.sh / the parent) interprets a crash or a
// timeout as reproduction.
func ReplayStore(rf *ReplayFile) int {
	if rf.Store == nil {
		fmt.Fprintln(os.Stderr, "replay file has no store case")
		return 2
	}
	v := RunStoreCase(rf.Store)
	if v == nil {
		fmt.Println("not reproduced: the decode completed within all bounds")
		return 0
	}
	fmt.Printf("VIOLATION property=C04 replay=%s\n  reproduced: %s\n", "(file)", v.String())
	return 1
}
