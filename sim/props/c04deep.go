package props

import (
	"bytes"
	"encoding/binary"
	"encoding/json"
	"fmt"
	"os"
	"reflect"
	"runtime/debug"
	"strconv"
	"strings"

	"verifsim/world"
)

// Deep probe: very large inputs of a few regular shapes, decoded by the real
// code in this process. The question is whether the decoder's recursion (and
// with it the goroutine stack, which Go caps: exceeding the cap is a fatal
// error no caller can recover from) follows the input. A flat input - however
// many fields or elements it has - must be decoded in constant stack; an input
// that nests a type inside itself D levels deep makes any recursive-descent
// decoder recurse D levels. A fatal error kills the worker; the parent
// re-executes the index alone and reports it from the case file.

// DeepCase identifies a deep-probe input; the bytes are rebuilt from it.
type DeepCase struct {
	Shape string `json:"shape"`
	Bytes int    `json:"bytes"` // approximate size of the input
	// MaxStackMB > 0: the run lowers Go's cap on one goroutine's stack (1 GB by
	// default) to this many MB. The quick tier does, with inputs scaled down by
	// the same factor: stack that follows the input exceeds either cap.
	MaxStackMB int `json:"max_stack_mb,omitempty"`
}

type deepEntry struct{ typ, shape string }

// deepList is completed at start-up with one "many-elements" entry per
// container field (slice or map) of a few wide types and per wire form.
var deepList = append([]deepEntry{
	{"Wide", "unknown-fields"},
	{"Wide", "repeated-field"},
	{"Nest", "unknown-fields"},
	{"Tree", "unknown-fields"},
	{"JDoc", "unknown-fields"},
	{"OnlyMap", "unknown-fields"},
	{"Small", "repeated-field"},
	{"Tree", "nested-self"},
	{"JArr", "nested-json-arrays"},
	{"JDoc", "nested-json-arrays"},
}, containerShapes("Wide", "Nest", "Tree", "JDoc")...)

func containerShapes(types ...string) (out []deepEntry) {
	for _, tn := range types {
		ti := world.Types[tn]
		if ti == nil || ti.T.Kind() != reflect.Struct {
			continue
		}
		used := structTags(ti.T)
		for idx := 1; idx < 128; idx++ {
			sf, ok := used[idx]
			if !ok {
				continue
			}
			ft := sf.Type
			for ft.Kind() == reflect.Ptr {
				ft = ft.Elem()
			}
			if ft.Kind() == reflect.Map || (ft.Kind() == reflect.Slice && ft.Elem().Kind() != reflect.Uint8) {
				out = append(out, deepEntry{tn, fmt.Sprintf("many-elements@%d/counted", idx)}, deepEntry{tn, fmt.Sprintf("many-elements@%d/repeated", idx)})
			}
		}
	}
	return out
}

func structTags(t reflect.Type) (used map[int]reflect.StructField) {
	used = map[int]reflect.StructField{}
	for i := 0; i < t.NumField(); i++ {
		sf := t.Field(i)
		tag := sf.Tag.Get("plenc")
		if c := strings.IndexByte(tag, ','); c >= 0 {
			tag = tag[:c]
		}
		if idx, err := strconv.Atoi(tag); err == nil && sf.PkgPath == "" {
			used[idx] = sf
		}
	}
	return used
}

func appendUvarint(b []byte, v uint64) []byte {
	var tmp [10]byte
	return append(b, tmp[:binary.PutUvarint(tmp[:], v)]...)
}

func uvarintLen(v uint64) int {
	var tmp [10]byte
	return binary.PutUvarint(tmp[:], v)
}

// deepInput builds the input for a shape; ok=false when the shape does not
// apply to the type. levels is the nesting depth of the input (1 for flat).
func deepInput(t reflect.Type, shape string, size int) (in []byte, levels int, what string, ok bool) {
	if t.Kind() != reflect.Struct {
		return nil, 0, "", false
	}
	used := structTags(t)
	if strings.HasPrefix(shape, "many-elements@") {
		var idx int
		var form string
		if _, err := fmt.Sscanf(strings.Replace(strings.TrimPrefix(shape, "many-elements@"), "/", " ", 1), "%d %s", &idx, &form); err != nil {
			return nil, 0, "", false
		}
		sf, ok := used[idx]
		if !ok {
			return nil, 0, "", false
		}
		ft := sf.Type
		for ft.Kind() == reflect.Ptr {
			ft = ft.Elem()
		}
		packed := false
		if ft.Kind() == reflect.Slice {
			switch ft.Elem().Kind() {
			case reflect.Bool, reflect.Int, reflect.Int8, reflect.Int16, reflect.Int32, reflect.Int64, reflect.Uint, reflect.Uint16, reflect.Uint32, reflect.Uint64, reflect.Float32, reflect.Float64:
				packed = true
			}
		}
		n := size
		switch {
		case form == "counted" && packed:
			// one length-delimited field holding n one-byte varints (or n/8 zero floats)
			in = appendUvarint(in, uint64(idx)<<3|world.WTLength)
			in = appendUvarint(in, uint64(n))
			in = append(in, bytes.Repeat([]byte{0x01}, n)...)
			if k := ft.Elem().Kind(); k == reflect.Float32 || k == reflect.Float64 {
				copy(in[len(in)-n:], make([]byte, n))
			}
			what = fmt.Sprintf("a flat record: field %d (%s, %s) as one packed run of %d bytes", idx, sf.Name, ft, n)
		case form == "counted":
			// count n, then n empty elements / entries (a length of zero each)
			in = appendUvarint(in, uint64(idx)<<3|world.WTSlice)
			in = appendUvarint(in, uint64(n))
			in = append(in, make([]byte, n)...)
			what = fmt.Sprintf("a flat record: field %d (%s, %s) with a count of %d and as many empty elements", idx, sf.Name, ft, n)
		case packed:
			var f []byte
			f = appendUvarint(f, uint64(idx)<<3|world.WTVarInt)
			f = append(f, 0x01)
			in = bytes.Repeat(f, n/len(f))
			what = fmt.Sprintf("a flat record: field %d (%s, %s) as %d repeated scalar fields", idx, sf.Name, ft, n/len(f))
		default:
			var f []byte
			f = appendUvarint(f, uint64(idx)<<3|world.WTLength)
			f = append(f, 0x00)
			in = bytes.Repeat(f, n/len(f))
			what = fmt.Sprintf("a flat record: field %d (%s, %s) as %d repeated empty length-delimited fields", idx, sf.Name, ft, n/len(f))
		}
		return in, 1, what, true
	}
	switch shape {
	case "unknown-fields":
		idx := 1
		for {
			if _, u := used[idx]; !u {
				break
			}
			idx++
		}
		var f []byte
		f = appendUvarint(f, uint64(idx)<<3|world.WTVarInt)
		f = append(f, 0x02)
		in = bytes.Repeat(f, size/len(f))
		return in, 1, fmt.Sprintf("a flat record: field %d, which the reader does not know, %d times", idx, size/len(f)), true
	case "repeated-field":
		for idx := 1; idx < 64; idx++ {
			sf, u := used[idx]
			if !u {
				continue
			}
			switch sf.Type.Kind() {
			case reflect.Int, reflect.Int32, reflect.Int64, reflect.Uint, reflect.Uint32, reflect.Uint64, reflect.Bool:
				var f []byte
				f = appendUvarint(f, uint64(idx)<<3|world.WTVarInt)
				f = append(f, 0x01)
				in = bytes.Repeat(f, size/len(f))
				return in, 1, fmt.Sprintf("a flat record: scalar field %d (%s) %d times", idx, sf.Name, size/len(f)), true
			}
		}
		return nil, 0, "", false
	case "nested-self":
		idx := -1
		for i := 1; i < 64; i++ {
			if sf, u := used[i]; u && sf.Type.Kind() == reflect.Ptr && sf.Type.Elem() == t {
				idx = i
				break
			}
		}
		if idx < 0 {
			return nil, 0, "", false
		}
		// L[k] is the body length of a node with k nodes below it
		d := size / 5
		L := make([]uint64, d+1)
		for k := 1; k <= d; k++ {
			L[k] = 1 + uint64(uvarintLen(L[k-1])) + L[k-1]
		}
		in = make([]byte, 0, L[d])
		for k := d; k >= 1; k-- {
			in = append(in, byte(idx<<3|world.WTLength))
			in = appendUvarint(in, L[k-1])
		}
		return in, d, fmt.Sprintf("a well-formed record that nests the self-referential type %s inside itself %d levels deep", t.Name(), d), true
	case "nested-json-arrays":
		idx := -1
		for i := 1; i < 64; i++ {
			if sf, u := used[i]; u && sf.Type.Kind() == reflect.Slice && sf.Type.Elem().Kind() == reflect.Interface {
				idx = i
				break
			}
		}
		if idx < 0 {
			return nil, 0, "", false
		}
		// body_0 = count 0; entry_k = 10 05 1b body_{k-1}; body_k = 01 len(entry_k) entry_k
		d := size / 8
		B := make([]uint64, d+1)
		E := make([]uint64, d+1)
		B[0] = 1
		for k := 1; k <= d; k++ {
			E[k] = 3 + B[k-1]
			B[k] = 1 + uint64(uvarintLen(E[k])) + E[k]
		}
		in = make([]byte, 0, B[d]+2)
		in = append(in, byte(idx<<3|world.WTSlice))
		for k := d; k >= 1; k-- {
			in = append(in, 0x01)
			in = appendUvarint(in, E[k])
			in = append(in, 0x10, 0x05, 0x1b)
		}
		in = append(in, 0x00)
		return in, d, fmt.Sprintf("a well-formed record whose JSON array field nests arrays %d levels deep (JSON values are self-referential)", d), true
	}
	return nil, 0, "", false
}

// deepSelfTest checks the hand-built nested encodings at a small depth: the
// real decoder must read them as exactly the nested value they stand for (the
// probe must feed well-formed records).
func deepSelfTest(cfg world.InstCfg) error {
	// Tree nested 4 deep through L
	tt := world.Types["Tree"].T
	root := reflect.New(tt)
	cur := root.Elem()
	for i := 0; i < 4; i++ {
		n := reflect.New(tt)
		cur.Field(0).Set(n)
		cur = n.Elem()
	}
	built, _, _, ok := deepInput(tt, "nested-self", 20)
	got, errs, pan := soloUnmarshal(cfg, tt, built)
	InstallStoreHooks()
	if !ok || pan != "" || errs != "" {
		return fmt.Errorf("deep probe self-test: nested Tree %x does not decode: %s %s", built, errs, pan)
	}
	if eq, path := world.Equal(got, root.Elem()); !eq {
		return fmt.Errorf("deep probe self-test: nested Tree %x decodes differently at %s", built, path)
	}
	ja := world.Types["JArr"].T
	jv := reflect.New(ja)
	var a []any = []any{}
	for i := 0; i < 3; i++ {
		a = []any{a}
	}
	jv.Elem().Field(0).Set(reflect.ValueOf(a))
	want, errs, pan := soloMarshal(cfg, jv.Interface())
	InstallStoreHooks()
	built, _, _, ok = deepInput(ja, "nested-json-arrays", 24)
	if pan != "" || errs != "" || !ok || !bytes.Equal(want, built) {
		return fmt.Errorf("deep probe self-test: nested []any encodes as %x, built %x", want, built)
	}
	return nil
}

var deepSelfTestNoted bool

// DeepCount is the number of deep-probe indexes: shape x configuration x reader.
func DeepCount() int { return 4 * len(deepList) }

var deepSizesQuick = []int{32 << 10, 512 << 10, 2 << 20}
var deepSizesThorough = []int{32 << 10, 2 << 20, 16 << 20, 48 << 20}

// DeepProbe runs deep-probe index idx: one shape, one configuration, one
// reader (Unmarshal or the Descriptor), at growing sizes; it stops at the
// first size that violates, so the smallest manifestation is what is reported.
func (s *StoreSim) DeepProbe(idx int, thorough bool) (*Violation, *StoreCase) {
	cfg := world.InstCfg{}
	if idx%2 == 1 {
		cfg = world.InstCfg{ProtoArrays: true, ProtoTime: true}
	}
	mode := "unmarshal"
	if (idx/2)%2 == 1 {
		mode = "descriptor"
	}
	d := deepList[(idx/4)%len(deepList)]
	sizes, maxStack := deepSizesQuick, 64
	if thorough {
		sizes, maxStack = deepSizesThorough, 0
	}
	if n, err := strconv.Atoi(os.Getenv("VERIF_DEEP_BYTES")); err == nil && n > 0 {
		sizes = []int{n}
	}
	for _, size := range sizes {
		if size > 16<<20 && strings.HasPrefix(d.shape, "many-elements") {
			continue // a count of 50 million legitimately pre-sizes gigabytes: the shape is not about that
		}
		v, c := s.deepCase(d.typ, d.shape, mode, size, maxStack, cfg)
		debug.FreeOSMemory() // the cases are megabytes each: give them back before the next one
		if v != nil {
			return v, c
		}
	}
	return nil, nil
}

func (s *StoreSim) deepCase(tn, shape, mode string, size, maxStackMB int, cfg world.InstCfg) (*Violation, *StoreCase) {
	if maxStackMB > 0 {
		defer debug.SetMaxStack(debug.SetMaxStack(maxStackMB << 20))
	}
	ti := world.Types[tn]
	if ti == nil || !world.ShapeOK(ti, cfg) {
		return nil, nil
	}
	if strings.HasPrefix(shape, "nested-") {
		// the hand-built nested records are checked against what this tree's own codec
		// writes and reads. If they disagree the encoder or decoder of this tree is
		// broken in a way that is not this probe's business (another property's check
		// reports it): the nested shapes are left out, the flat ones still run.
		if err := deepSelfTest(cfg); err != nil {
			if !deepSelfTestNoted {
				deepSelfTestNoted = true
				fmt.Fprintln(os.Stderr, "note:", err.Error(), "- nested deep-probe shapes skipped")
			}
			s.St.ByFault["deep_nested_shapes_skipped_selftest"]++
			return nil, nil
		}
	}
	input, levels, what, ok := deepInput(ti.T, shape, size)
	if !ok {
		return nil, nil
	}
	capNote := ""
	if maxStackMB > 0 {
		capNote = fmt.Sprintf(" [goroutine stack capped at %d MB instead of Go's default 1 GB]", maxStackMB)
	}
	for _, rd := range s.readersFor(tn, cfg) {
		if rd.ti.Name != tn || rd.mode != mode {
			continue
		}
		c := &StoreCase{Type: tn, Reader: tn, Mode: rd.mode, Cfg: cfg, Present: "exact",
			Fault: fmt.Sprintf("deep probe: %d-byte input, %s%s", len(input), what, capNote), Deep: &DeepCase{Shape: shape, Bytes: size, MaxStackMB: maxStackMB}}
		s.curCase = c
		if s.CaseFile != "" {
			cb, _ := json.Marshal(c)
			os.WriteFile(s.CaseFile, cb, 0o644)
		}
		s.St.ByFault["deep_"+strings.ReplaceAll(shape, "-", "_")]++
		s.St.Records++
		s.St.Types[tn]++
		buf := present(input, nil, "exact")
		res := s.decodeOnce(s.inst(cfg), rd, buf, true)
		s.St.Decodes++
		if res.hang {
			return violStore("hang", res.site, fmt.Sprintf("decode did not finish within %s (loop at %s) (%s)", hangBudget(res.site, len(input)), res.site, c.Fault), c), c
		}
		if res.panicked != "" {
			return violStore("panic", res.site, fmt.Sprintf("panic: %s at %s (%s)", res.panicked, res.site, c.Fault), c), c
		}
		if levels == 1 && res.steps > 64+4*len(input) {
			return violStore("slow", "", fmt.Sprintf("decode took %d decode steps, more than 4 per input byte (%s)", res.steps, c.Fault), c), c
		}
		bound := uint64(allocBase + rd.k*len(input))
		if res.alloc > bound {
			kind := "blowup"
			why := ""
			if _, ok := errorChain(res.err); ok {
				kind = "blowup-errorchain"
			} else if sp := strings.Count(res.json, " "); rd.mode == "descriptor" && levels > 1 && uint64(len(res.json)) > bound/4 && sp > len(res.json)*9/10 {
				// the Descriptor's JSON text indents every line by its nesting depth
				kind = "blowup-indent"
				why = fmt.Sprintf(": the JSON text it produced is %d bytes, %d of them indentation (two spaces per nesting level on every line)", len(res.json), sp)
			}
			return violStore(kind, "", fmt.Sprintf("decoding allocated %d bytes (allowance %d)%s (%s)", res.alloc, bound, why, c.Fault), c), c
		}
	}
	return nil, nil
}
