package props

import (
	"fmt"
	"reflect"
	"strings"
	"unsafe"

	"verifsim/engine"
	"verifsim/world"
)

// Operations that model what callers do with their own memory: ring buffers
// that are re-used and overwritten (C11, C19), decode targets that are re-used
// (C10), an output log that Marshal appends to (C11).

const ringCap = 1024

// ringBuf returns ring buffer k of the task, large enough for n bytes. Old
// bytes beyond n stay in place (stale tail).
func (t *taskState) ringBuf(k, n int) []byte {
	b := t.bufs[k]
	if cap(b) < n || b == nil {
		c := ringCap
		for c < n {
			c *= 2
		}
		b = make([]byte, c)
		// a fresh buffer starts with a recognisable non-zero filler
		for i := range b {
			b[i] = 0xA5
		}
		t.bufs[k] = b
	}
	return b[:cap(b)]
}

func (t *taskState) unmarshalOp(i int, po *prepOp) {
	if po.op.Pat == "torn" {
		// A torn record models an operation aborted part-way. How it aborts
		// (error, or a panic the caller recovers) is C04's business; here only
		// what it leaves behind matters.
		defer func() {
			if r := recover(); r != nil {
				if _, ok := r.(engine.AbortPanic); ok {
					panic(r)
				}
				if he, ok := r.(HarnessError); ok {
					panic(he)
				}
				delete(t.targets, po.op.Target)
				t.probe("fault:torn_decode_panicked")
			}
		}()
		t.probe("fault:torn_record")
	}
	p := t.inst(po)
	var in []byte
	var full []byte
	var tailCopy []byte
	var decoded reflect.Value
	t.holdBeforeReuse(i, po)
	if po.op.Buf > 0 {
		full = t.ringBuf(po.op.Buf, len(po.data))
		copy(full, po.data)
		in = full[:len(po.data)]
		tailCopy = append([]byte(nil), full[len(po.data):]...)
		t.probe("decode_with_stale_tail")
	} else {
		in = append(make([]byte, 0, len(po.data)), po.data...)
	}
	if po.op.Target > 0 && t.x.prop == "C11" {
		t.reuseDecodeAlias(i, po, in)
	} else if po.op.Target > 0 && t.x.prop == "C19" {
		t.reuseDecodeTwin(i, po, in)
	} else if po.op.Target > 0 {
		t.reuseDecode(i, po, in)
	} else {
		out := reflect.New(po.ti.T)
		err := p.Unmarshal(in, out.Interface())
		t.noteValue(out.Elem(), err)
		t.checkDecoded(i, po, out, err)
		decoded = out
		var twin reflect.Value
		if t.x.prop == "C19" && po.ti.Twin != "" {
			// interning must be transparent: the same bytes, from the same buffer,
			// through the same instance, into the twin type without the option
			twin = reflect.New(typeInfo(po.ti.Twin).T)
			terr := p.Unmarshal(in, twin.Interface())
			if twinErrText(terr) != errText(err) {
				t.fail(i, po, "error-mismatch", fmt.Sprintf("with interning the decode gives error %q, without %q", errText(err), errText(terr)))
			} else if err == nil {
				if ok, path := world.DiffInterned(out.Elem(), twin.Elem()); !ok {
					t.fail(i, po, "mismatch", "interned field decodes differently from the same field without the option: "+path)
				}
			}
		}
		if err == nil && po.op.Hold {
			// what must never change later is the value as it was when Unmarshal
			// returned: an independent deep copy taken right now
			lv := liveVal{ptr: out, exp: world.Clone(out.Elem()), op: i}
			if twin.IsValid() {
				lv.twin, lv.twinExp = twin, world.Clone(twin.Elem())
			}
			t.live = append(t.live, lv)
		}
	}
	if !decoded.IsValid() && po.op.Target > 0 {
		decoded = t.targets[po.op.Target] // invalid if the decode failed and the target was dropped
	}
	if (t.x.prop == "C11" || t.x.prop == "C19") && decoded.IsValid() && decoded.Type().Elem() == po.ti.T {
		// the direct form of "shares no memory with the input": nothing the decoded
		// value owns - including the capacity of an empty slice - lies in the buffer
		buf := in[:cap(in)]
		if full != nil {
			buf = full[:cap(full)]
		}
		if len(buf) > 0 {
			lo := uintptr(unsafe.Pointer(&buf[0]))
			if hit, path := world.Overlaps(decoded.Elem(), lo, lo+uintptr(len(buf))); hit {
				t.fail(i, po, "alias", "the decoded value shares memory with the input buffer at "+path)
			}
		}
	}
	if decoded.IsValid() && decoded.Type().Elem() == po.ti.T {
		t.checkHeld(i, po, decoded)
	}
	if string(in) != string(po.data) {
		t.fail(i, po, "alias", "Unmarshal modified its input bytes")
	}
	if full != nil && string(full[len(po.data):]) != string(tailCopy) {
		t.fail(i, po, "alias", "Unmarshal wrote beyond the end of its input")
	}
}

// reuseDecode decodes into a re-used target (C10). Oracle: physical-twin
// differential - the target reached through the real history (spare capacity,
// stale elements beyond len, recycled pointers) and an exactly-sized deep copy
// of its logical value must be equal after decoding the same bytes into both.
func (t *taskState) reuseDecode(i int, po *prepOp, in []byte) {
	p := t.inst(po)
	slot := po.op.Target
	tgt, ok := t.targets[slot]
	if !ok || tgt.Type().Elem() != po.ti.T {
		tgt = reflect.New(po.ti.T)
		t.targets[slot] = tgt
		t.probe("target_created")
	} else {
		t.probe("target_reused")
		if hasSpareCapacity(tgt.Elem(), 0) {
			t.probe("target_reused_with_spare_capacity")
		}
	}
	twin := reflect.New(po.ti.T)
	twin.Elem().Set(world.Clone(tgt.Elem()))
	var model reflect.Value
	if po.mergeOK {
		model = reflect.New(po.ti.T)
		model.Elem().Set(world.Clone(tgt.Elem()))
	}
	err1 := p.Unmarshal(in, tgt.Interface())
	t.noteValue(tgt.Elem(), err1)
	in2 := append([]byte(nil), po.data...)
	err2 := p.Unmarshal(in2, twin.Interface())
	if errText(err1) != errText(err2) {
		t.fail(i, po, "error-mismatch", fmt.Sprintf("decode into the re-used target gives error %q, into an exact copy of its value %q", errText(err1), errText(err2)))
		delete(t.targets, slot)
		return
	}
	if err1 != nil {
		// nothing is promised about a target that received a failed decode
		delete(t.targets, slot)
		t.probe("fault:aborted_decode_into_reused_target")
		return
	}
	if ok, path := world.Equal(tgt.Elem(), twin.Elem()); !ok {
		t.fail(i, po, "leak", "re-used target differs from an exactly-sized copy of its prior value after decoding the same bytes, at "+path)
		return
	}
	// The slices oracle reads the statement's rule off the record's shape, which
	// is only known for well-formed records: a damaged one may carry a slice in
	// the protobuf repeated form (appending is then right) or be walked
	// differently from its declared framing. Damaged records are judged by the
	// physical twin above (and the solo oracle for fresh targets) only.
	if po.op.Pat != "torn" && po.op.Pat != "damaged" {
		var present map[int]bool
		if po.ti.T.Kind() == reflect.Struct {
			present = world.PresentFields(po.data)
		}
		if ok, path := world.SlicesExact(tgt.Elem(), po.expVal, t.x.prep.sc.Insts[po.op.Inst], present); !ok {
			t.fail(i, po, "leak", path)
			return
		}
	}
	if po.mergeOK {
		world.Merge(model.Elem(), po.srcVal, po.expVal, t.x.prep.sc.Insts[po.op.Inst])
		if ok, path := world.Equal(tgt.Elem(), model.Elem()); !ok {
			t.fail(i, po, "leak", "re-used target differs from the merge rules' result at "+path)
		} else {
			t.probe("merge_model_checked")
		}
	}
}

// reuseDecodeAlias (C11): decode into a re-used target, then treat the whole
// target as a live value: its content right after Unmarshal returned must
// survive any later overwrite of the input buffer.
func (t *taskState) reuseDecodeAlias(i int, po *prepOp, in []byte) {
	p := t.inst(po)
	slot := po.op.Target
	tgt, ok := t.targets[slot]
	if !ok || tgt.Type().Elem() != po.ti.T {
		tgt = reflect.New(po.ti.T)
		t.targets[slot] = tgt
	} else {
		t.probe("target_reused")
	}
	selfField := -1
	if po.op.Self && po.ti.T.Kind() == reflect.Struct && len(in) > 0 {
		// peeling nested frames: the bytes to decode are what the target's own byte-slice
		// field holds (the same memory, not a copy)
		for f := 0; f < po.ti.T.NumField(); f++ {
			sf := po.ti.T.Field(f)
			if sf.PkgPath == "" && sf.Type == reflect.TypeOf([]byte(nil)) {
				tgt.Elem().Field(f).SetBytes(in)
				selfField = f
				t.probe("fault:input_is_the_targets_own_byte_slice")
				break
			}
		}
	}
	err := p.Unmarshal(in, tgt.Interface())
	if selfField >= 0 {
		// if the data did not carry that field it still holds what the caller put there:
		// the caller's own doing, dropped before the value is examined
		if fv := tgt.Elem().Field(selfField); fv.Len() == len(in) && fv.Pointer() == reflect.ValueOf(in).Pointer() {
			fv.Set(reflect.Zero(fv.Type()))
		}
	}
	// drop the previous snapshot of this slot
	live := t.live[:0]
	for _, lv := range t.live {
		if lv.slot != slot {
			live = append(live, lv)
		}
	}
	t.live = live
	if err != nil {
		delete(t.targets, slot)
		return
	}
	t.live = append(t.live, liveVal{slot: slot, ptr: tgt, exp: world.Clone(tgt.Elem()), op: i})
}

// reuseDecodeTwin (C19): the interned type and its twin without the option are
// decoded into two re-used targets that saw the same history; they must hold
// the same data afterwards.
func (t *taskState) reuseDecodeTwin(i int, po *prepOp, in []byte) {
	p := t.inst(po)
	slot := po.op.Target
	if po.ti.Twin == "" {
		return
	}
	tt := typeInfo(po.ti.Twin).T
	tgt, ok := t.targets[slot]
	twin, ok2 := t.twins[slot]
	if ok && ok2 {
		// a twin that changed by itself since the last decode (strings aliasing a
		// buffer that was re-used: C11's business) is no reference any more
		for _, lv := range t.live {
			if lv.slot == slot && lv.twin.IsValid() {
				if same, _ := world.Equal(lv.twin.Elem(), lv.twinExp); !same {
					ok = false
					t.probe("other_property:twin_target_changed_between_decodes")
				}
			}
		}
	}
	if !ok || !ok2 || tgt.Type().Elem() != po.ti.T {
		tgt, twin = reflect.New(po.ti.T), reflect.New(tt)
		t.targets[slot], t.twins[slot] = tgt, twin
	} else {
		t.probe("target_reused")
	}
	err1 := p.Unmarshal(in, tgt.Interface())
	err2 := p.Unmarshal(in, twin.Interface())
	if errText(err1) != twinErrText(err2) {
		t.fail(i, po, "error-mismatch", fmt.Sprintf("with interning the decode gives error %q, without %q", errText(err1), errText(err2)))
	}
	if err1 != nil || err2 != nil {
		delete(t.targets, slot)
		delete(t.twins, slot)
		return
	}
	if ok, path := world.DiffInterned(tgt.Elem(), twin.Elem()); !ok {
		t.fail(i, po, "mismatch", "after the same history of decodes into re-used targets an interned field differs from the same field without the option: "+path)
		delete(t.targets, slot)
		delete(t.twins, slot)
		return
	}
	// the re-used interned target is a live value too
	live := t.live[:0]
	for _, lv := range t.live {
		if lv.slot != slot {
			live = append(live, lv)
		}
	}
	t.live = append(live, liveVal{slot: slot, ptr: tgt, exp: world.Clone(tgt.Elem()), op: i, twin: twin, twinExp: world.Clone(twin.Elem())})
}

func hasSpareCapacity(v reflect.Value, depth int) bool {
	if depth > 6 {
		return false
	}
	switch v.Kind() {
	case reflect.Slice:
		if v.Cap() > v.Len() {
			return true
		}
		if v.Type().Elem().Kind() == reflect.Uint8 {
			return false
		}
		for i := 0; i < v.Len(); i++ {
			if hasSpareCapacity(v.Index(i), depth+1) {
				return true
			}
		}
	case reflect.Struct:
		for i := 0; i < v.NumField(); i++ {
			if v.Type().Field(i).PkgPath == "" && hasSpareCapacity(v.Field(i), depth+1) {
				return true
			}
		}
	case reflect.Ptr:
		if !v.IsNil() {
			return hasSpareCapacity(v.Elem(), depth+1)
		}
	}
	return false
}

// recheck compares every live decoded value of the task with its independent
// expected copy.
func (t *taskState) recheck(i int, po *prepOp, why string) {
	for _, lv := range t.live {
		if t.x.prop == "C19" {
			// only what interning adds is C19's: an interned field that no longer
			// holds what it held when the call returned, while the same field
			// without the option (decoded from the same buffer) is intact
			if !lv.twin.IsValid() {
				continue
			}
			if ok, path := world.DiffInterned(lv.ptr.Elem(), lv.twinExp); !ok {
				if ok2, _ := world.Equal(lv.twin.Elem(), lv.twinExp); ok2 {
					t.fail(i, po, "alias", fmt.Sprintf("interned string decoded by op %d changed %s: %s", lv.op, why, path))
					return
				}
				t.probe("other_property:non_interned_twin_changed_too")
			}
			continue
		}
		if ok, path := world.Equal(lv.ptr.Elem(), lv.exp); !ok {
			t.fail(i, po, "alias", fmt.Sprintf("value decoded by op %d changed %s, at %s", lv.op, why, path))
			return
		}
	}
	if len(t.live) > 0 {
		t.probe("live_values_rechecked")
	}
}

func (t *taskState) scribbleOp(i int, po *prepOp) {
	b := t.bufs[po.op.Buf]
	if b == nil {
		return
	}
	b = b[:cap(b)]
	switch po.op.Pat {
	case "00":
		for j := range b {
			b[j] = 0
		}
	case "ff":
		for j := range b {
			b[j] = 0xff
		}
	case "inc":
		for j := range b {
			b[j]++
		}
	default: // random
		r := engine.PRNG{S: uint64(po.op.Arg) + 1}
		for j := range b {
			b[j] = byte(r.Next())
		}
	}
	t.probe("fault:scribble_" + po.op.Pat)
	t.recheck(i, po, "after its input buffer was overwritten")
}

// marshalAppendOp: out = Marshal(out, &v) the way the README recommends.
func (t *taskState) marshalAppendOp(i int, po *prepOp) {
	p := t.inst(po)
	// how the caller prepares its destination buffer
	need := len(po.expBytes)
	switch po.op.Arg {
	case 1:
		t.out = []byte{} // empty, non-nil, no capacity
	case 2:
		c := need / 2
		t.out = make([]byte, 0, c) // empty, too small
	case 3:
		t.out = make([]byte, 0, need) // empty, exactly enough
	case 4:
		t.out = append(make([]byte, 0, 8+need), "prefix!!"...) // prefix, exactly enough room
	case 5:
		t.out = append(make([]byte, 0, 8+need/2), "prefix!!"...) // prefix, must grow
	default:
		if t.out == nil {
			t.out = make([]byte, 0, 256) // a log that keeps growing
		}
	}
	oldLen := len(t.out)
	backing := t.out[:cap(t.out)]
	prefix := append([]byte(nil), t.out...)
	res, err := p.Marshal(t.out, po.val.Addr().Interface())
	if len(res) >= oldLen {
		t.noteBytes(po.ti.T, res[oldLen:], err)
	}
	if e := errText(err); e != po.expErr && propRules[t.x.prop].solo {
		t.fail(i, po, "error-mismatch", fmt.Sprintf("Marshal error %q, alone it is %q", e, po.expErr))
		return
	}
	if err != nil {
		return
	}
	// the caller's memory below len must be untouched, whatever was returned
	if string(backing[:oldLen]) != string(prefix) {
		t.fail(i, po, "alias", "Marshal modified bytes of the destination buffer below its length")
		return
	}
	if ok, path := world.Equal(po.val, po.snap); !ok {
		t.fail(i, po, "alias", "Marshal modified the value it was given, at "+path)
		return
	}
	if ph := world.Phys(po.val); ph != po.phys {
		t.fail(i, po, "alias", "Marshal modified the value it was given (slice headers, spare capacity or pointers): "+world.DiffPhys(po.phys, ph))
		return
	}
	if res == nil && po.expNil {
		return // value omitted entirely (C06's clause, not checked here)
	}
	if len(res) < oldLen || string(res[:oldLen]) != string(prefix) {
		// C06's clause, not C11's: the caller's own memory was checked above
		t.probe("other_property:marshal_result_is_not_prefix_plus_encoding")
		t.out = t.out[:0]
		return
	}
	if !world.SameEncoding(po.ti.T, res[oldLen:], po.expBytes) {
		if propRules[t.x.prop].solo {
			t.fail(i, po, "mismatch", fmt.Sprintf("appended encoding %s differs from the solo encoding %s", hexShort(res[oldLen:]), hexShort(po.expBytes)))
			return
		}
		t.probe("other_property:encoding_differs_from_solo")
	}
	t.aliasCheck(i, po, res[oldLen:])
	t.out = res
	if len(t.out) > 4096 {
		t.out = t.out[:0]
	}
	t.probe("marshal_append_with_prefix")
}

// aliasCheck: the returned bytes and the value must not share memory. Run on
// a value the task owns exclusively.
func (t *taskState) aliasCheck(i int, po *prepOp, enc []byte) {
	if po.op.Shared > 0 || len(enc) == 0 {
		return
	}
	saved := append([]byte(nil), enc...)
	n := world.InvertBytes(po.val)
	if n == 0 {
		return
	}
	t.probe("fault:value_mutated_after_marshal")
	if string(enc) != string(saved) {
		t.fail(i, po, "alias", "the bytes returned by Marshal changed when the marshalled value's byte slices were overwritten")
	}
	// and the other way round
	for j := range enc {
		enc[j] = 0xEE
	}
	world.InvertBytes(po.val) // restore
	if ok, path := world.Equal(po.val, po.snap); !ok {
		t.fail(i, po, "alias", "the marshalled value changed when the returned bytes were overwritten, at "+path)
	}
	copy(enc, saved)
}

// marshalTargetOp (C10): marshal the value that sits in a re-used target - the
// same address as earlier marshals, with whatever content the history left -
// into a nil or a caller-supplied buffer. The result must be what a brand-new
// instance gives for a copy of that value.
func (t *taskState) marshalTargetOp(i int, po *prepOp) {
	tgt, ok := t.targets[po.op.Target]
	if !ok {
		return
	}
	p := t.inst(po)
	cfg := t.x.prep.sc.Insts[po.op.Inst]
	cl := world.Clone(tgt.Elem())
	exp, eerr, epan := soloMarshal(cfg, cl.Addr().Interface())
	if epan != "" {
		return
	}
	var buf []byte
	switch po.op.Arg {
	case 1:
		buf = make([]byte, 0, 64)
	case 2:
		buf = append(make([]byte, 0, 16), "log:"...)
	}
	pre := len(buf)
	prefix := string(buf)
	b, err := p.Marshal(buf, tgt.Interface())
	if len(b) >= pre {
		t.noteBytes(tgt.Type().Elem(), b[pre:], err)
	}
	t.probe("marshal_of_reused_value")
	if errText(err) != eerr {
		t.fail(i, po, "error-mismatch", fmt.Sprintf("Marshal of the re-used value gives error %q, a brand-new instance %q", errText(err), eerr))
		return
	}
	if err != nil || (b == nil && exp == nil) {
		return
	}
	if len(b) < pre || string(b[:pre]) != prefix {
		t.probe("other_property:marshal_result_is_not_prefix_plus_encoding") // C06 / C11, not a stale-state leak
		return
	}
	if !world.SameEncoding(tgt.Type().Elem(), b[pre:], exp) {
		t.fail(i, po, "leak", fmt.Sprintf("Marshal of the value in a re-used variable gives %s, a brand-new instance gives %s for the same value", hexShort(b[min(pre, len(b)):]), hexShort(exp)))
	}
}

func min(a, b int) int {
	if a < b {
		return a
	}
	return b
}

// twinErrText is the error text of a decode into a twin type with the type
// names mapped back (SymTwin -> Sym): error texts name the struct types.
func twinErrText(err error) string {
	return strings.ReplaceAll(errText(err), "Twin", "")
}

// heldVal is something the caller still holds: the result of an earlier
// Unmarshal, or - for a target that has since been decoded into again - what
// the caller kept of its previous value (kept := v.Items; Unmarshal(data, &v)).
type heldVal struct {
	slot  int // target slot (0 = a fresh variable)
	op    int
	label string
	// keep is the held value itself. Its regions are taken from its state at the
	// moment of each check, never remembered: memory it referenced once and no
	// longer does (a later decode into a shared pointee replaced a slice) is
	// free, and the allocator may hand the address to anybody.
	keep reflect.Value
}

func (t *taskState) holdsApply() bool {
	switch t.x.prop {
	case "C10", "C11", "C19":
		return true
	}
	return false
}

// holdBeforeReuse: the caller keeps a shallow copy of the value a target holds
// before decoding into it again (the copy shares slices, maps and pointees
// with the target's previous value).
func (t *taskState) holdBeforeReuse(i int, po *prepOp) {
	t.keptNow, t.keptExp = reflect.Value{}, reflect.Value{} // a copy belongs to one decode only
	if !t.holdsApply() || po.op.Target == 0 {
		return
	}
	tgt, ok := t.targets[po.op.Target]
	if !ok || tgt.Type().Elem() != po.ti.T {
		return
	}
	kc := reflect.New(po.ti.T)
	kc.Elem().Set(tgt.Elem())
	t.hold(heldVal{slot: po.op.Target, op: i, label: "what the caller kept of the previous value of the target", keep: kc})
	t.keptNow, t.keptExp = kc, world.Clone(kc.Elem())
}

// checkHeld: the results of different Unmarshal calls share no memory they can
// change through - unless the caller passed the same target again. (Sharing
// would let a write through one result, or a later decode into it, change the
// other; nothing decoded earlier may influence a later result.)
func (t *taskState) checkHeld(i int, po *prepOp, decoded reflect.Value) {
	if !t.holdsApply() {
		return
	}
	regs := world.MutableRegions(decoded.Elem())
	slot := po.op.Target
	// only for records in which every field occurs once: when a field occurs twice
	// (concatenated or damaged records) the first occurrence may legitimately write
	// into memory that the second one then replaces
	if t.keptNow.IsValid() && slot > 0 && t.keptNow.Type() == decoded.Type() && po.op.Pat == "" {
		if ch, path := world.AbandonedChanged(t.keptNow.Elem(), t.keptExp, regs); ch {
			kind := "alias"
			if t.x.prop == "C10" {
				kind = "leak"
			}
			t.fail(i, po, kind, "memory the target no longer uses, but the caller still holds from its previous value (kept := v.Items; Unmarshal(data, &v)), was written to: "+path)
		}
	}
	t.keptNow, t.keptExp = reflect.Value{}, reflect.Value{}
	for _, h := range t.held {
		if slot > 0 && h.slot == slot {
			continue // the same target: re-using its memory is the point
		}
		if h.keep.Pointer() == decoded.Pointer() {
			continue
		}
		if hit, x, y := world.RegionsOverlap(regs, world.MutableRegions(h.keep.Elem())); hit {
			kind := "alias"
			if t.x.prop == "C10" {
				kind = "leak"
			}
			t.fail(i, po, kind, fmt.Sprintf("the decoded value shares memory with %s (operation %d): %s <-> %s", h.label, h.op, x.Path, y.Path))
			break
		}
	}
	t.hold(heldVal{slot: slot, op: i, label: "the result of an earlier Unmarshal", keep: decoded})
	// a result decoded into a fresh variable stays with the caller to the end of the run and
	// must then still be what Unmarshal returned (re-used targets change legitimately)
	if slot == 0 && len(t.results) < 48 {
		t.results = append(t.results, keptResult{i: i, po: po, out: decoded, snap: world.Clone(decoded.Elem())})
	}
}

// hold remembers a value; the caller holds on to the 24 most recent ones.
func (t *taskState) hold(h heldVal) {
	if len(t.held) >= 24 {
		copy(t.held, t.held[1:])
		t.held = t.held[:len(t.held)-1]
	}
	t.held = append(t.held, h)
}
