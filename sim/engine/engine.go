// Package engine is the deterministic scheduler of the plenc simulator.
//
// Tasks are real goroutines running real plenc code. Exactly one of them holds
// the "baton" at any instant; all the others are parked in a blocking read(2)
// on their own pipe. At every yield point (a hook compiled into plenc under the
// build tag "verif") the baton holder consults the schedule policy - a seeded
// PRNG or a recorded decision list - and either carries on or hands the baton
// to another task and parks itself.
//
// The hand-off deliberately uses raw syscall.Syscall on pipes from //go:norace
// functions: channels, mutexes or atomics would give the race detector a
// happens-before edge between any two consecutive steps and blind it. This way
// the only synchronisation the race detector sees is what plenc itself does,
// so a fully serialised, replayable run in a -race build still reports plenc's
// unordered conflicting accesses.
//
// All scheduler state is touched only by the baton holder, from //go:norace
// code. No maps or appends are used in that state (the runtime instruments
// those even for norace callers).
package engine

import (
	"fmt"
	"os"
	"strconv"
	"sync"
	"syscall"
	"time"
	"unsafe"

	"github.com/philpearl/plenc/plenccodec"
	"github.com/philpearl/plenc/plenccore"
)

const (
	MaxTasks   = 8
	maxPools   = 32
	maxPoolLen = 4
	maxDecs    = 1 << 16
	maxTrace   = 4096
)

// ---------------------------------------------------------------------------
// PRNG (splitmix64). One integer decides everything.

type PRNG struct{ S uint64 }

//go:norace
func (p *PRNG) Next() uint64 {
	p.S += 0x9e3779b97f4a7c15
	z := p.S
	z = (z ^ (z >> 30)) * 0xbf58476d1ce4e5b9
	z = (z ^ (z >> 27)) * 0x94d049bb133111eb
	return z ^ (z >> 31)
}

//go:norace
func (p *PRNG) Intn(n int) int {
	if n <= 1 {
		return 0
	}
	return int(p.Next() % uint64(n))
}

// Chance returns true with probability num/den.
//
//go:norace
func (p *PRNG) Chance(num, den int) bool { return p.Intn(den) < num }

// Mix derives a new seed from several integers.
func Mix(vs ...uint64) uint64 {
	p := PRNG{S: 0x243f6a8885a308d3}
	var h uint64
	for _, v := range vs {
		p.S ^= v
		h = p.Next()
		p.S = h
	}
	return h
}

// ---------------------------------------------------------------------------
// Sites

var SiteNames = []string{
	"other",
	"reg.load", "reg.store", "reg.storeOrSwap",
	"struct.field", "struct.fieldDone", "struct.index", "struct.done",
	"map.build",
	"intern.miss", "mutex.wait", "intern.locked", "intern.publish",
	"map.entry", "map.key", "map.value",
	"struct.read", "struct.append",
	"slice.elem", "slice.varint", "slice.append",
	"time.read", "json.map", "json.array", "json.kv",
	"desc.scalars", "desc.slice", "desc.struct", "desc.json", "desc.jsonkv",
	"skip.slice",
	"struct.size", "struct.descriptor", "map.size", "map.append", "slice.size", "slice.encode", "json.size", "json.encode",
	"map.iter1", "map.iterN", "map.iterEnd",
	"auto.atomic", "auto.lock", "auto.call", "auto.spin",
	"auto.onceWait", "auto.onceEnter", "auto.onceLeave",
	"simreg.load", "simreg.storeOrSwap",
	"op.begin", "op.end",
}

const (
	SiteOther     = 0
	SiteMutexWait = 10
)

var NumSites = len(SiteNames)

var siteIter1, siteIterN, siteIterEnd, siteOpBegin, siteAutoSpin, siteOnceWait, siteOnceEnter, siteOnceLeave, siteAutoFirst int

var siteIndex = func() map[string]int {
	m := make(map[string]int, len(SiteNames))
	for i, n := range SiteNames {
		m[n] = i
	}
	if m["mutex.wait"] != SiteMutexWait {
		panic("site table out of step")
	}
	siteIter1, siteIterN, siteIterEnd, siteOpBegin = m["map.iter1"], m["map.iterN"], m["map.iterEnd"], m["op.begin"]
	siteAutoSpin = m["auto.spin"]
	siteAutoFirst = m["auto.atomic"]
	siteOnceWait, siteOnceEnter, siteOnceLeave = m["auto.onceWait"], m["auto.onceEnter"], m["auto.onceLeave"]
	return m
}()

// SiteID maps a site name to its index (0 = other/unknown).
func SiteID(name string) int { return siteIndex[name] }

// ---------------------------------------------------------------------------
// Decisions

// Dec is one recorded decision: kind in the high bits, value in the low 16.
// Kinds: 's' schedule (value = task id), 'g' pool get (0 = fresh, j = j-th most
// recent recycled), 'p' pool put (1 = keep, 0 = drop).
type Dec uint32

func MkDec(kind byte, v int) Dec { return Dec(uint32(kind)<<16 | uint32(v&0xffff)) }
func (d Dec) Kind() byte         { return byte(d >> 16) }
func (d Dec) Val() int           { return int(int16(d & 0xffff)) }

// DecDefault as a forced decision means "take the default option".
func DecDefault(kind byte) Dec { return MkDec(kind, -1) }

func FormatDecs(ds []Dec) string {
	b := make([]byte, 0, len(ds)*3)
	for i, d := range ds {
		if i > 0 {
			b = append(b, ' ')
		}
		b = append(b, d.Kind())
		b = append(b, fmt.Sprint(d.Val())...)
	}
	return string(b)
}

func ParseDecs(s string) ([]Dec, error) {
	var out []Dec
	i := 0
	for i < len(s) {
		if s[i] == ' ' {
			i++
			continue
		}
		k := s[i]
		i++
		j := i
		for j < len(s) && s[j] != ' ' {
			j++
		}
		var v int
		if _, err := fmt.Sscanf(s[i:j], "%d", &v); err != nil {
			return nil, fmt.Errorf("bad decision %q", s[i-1:j])
		}
		out = append(out, MkDec(k, v))
		i = j
	}
	return out, nil
}

// ---------------------------------------------------------------------------
// Policy

type Policy struct {
	Kind      string `json:"kind"`                 // serial random sticky pct stall sweep
	P         int    `json:"p,omitempty"`          // sticky: preempt with probability 1/P
	D         int    `json:"d,omitempty"`          // pct: number of priority change points
	Est       int    `json:"est,omitempty"`        // pct: estimated steps
	StallTask int    `json:"stall_task,omitempty"` // stall
	StallAt   int    `json:"stall_at,omitempty"`
	SweepA    int    `json:"sweep_a,omitempty"` // sweep: run A to its I-th yield, then B to completion, then A
	SweepB    int    `json:"sweep_b,omitempty"`
	SweepI    int    `json:"sweep_i,omitempty"`
	SweepJ    int    `json:"sweep_j,omitempty"` // > 0: B in turn is preempted at its J-th yield, A finishes, then B
}

const (
	polSerial = iota
	polRandom
	polSticky
	polPCT
	polStall
	polSweep
)

func polKind(k string) int {
	switch k {
	case "serial", "":
		return polSerial
	case "random":
		return polRandom
	case "sticky":
		return polSticky
	case "pct":
		return polPCT
	case "stall":
		return polStall
	case "sweep":
		return polSweep
	}
	panic("unknown policy " + k)
}

// ---------------------------------------------------------------------------
// Sim

const (
	stReady = iota
	stDone
)

const (
	AbortNone = iota
	AbortBudget
	AbortDeadlock
)

// AbortPanic is thrown from a yield point into a task when the run is aborted
// (step budget exceeded or simulated deadlock). Task bodies must let it pass or
// recover it and stop.
type AbortPanic struct{ Why int }

type Stats struct {
	Steps        int
	Switches     int // baton hand-offs at a yield (not at task end)
	Decisions    int
	Mismatch     int // forced decisions that were infeasible
	PoolFresh    int
	PoolRecycled int
	PoolDirty    int // recycled scratch handed out while holding non-zero bytes (set by caller probe)
	PoolKeep     int
	PoolDrop     int
	MutexWaits   int
	Stalls       int
	Hash         uint64 // interleaving id: hash of the (task, site) sequence
	SwitchHash   uint64 // hash of (step, from, to) hand-offs only
	Abort        int
	FreeRun      bool
	MaxInFlight  int
}

type Sim struct {
	N      int
	rng    PRNG
	pol    Policy
	polK   int
	sites  []bool
	forced []Dec
	fpos   int
	useF   bool
	decs   []Dec
	ndecs  int

	state     [MaxTasks]int
	blocked   [MaxTasks]bool
	blockedAt [MaxTasks]int
	yields    [MaxTasks]int
	iterDepth [MaxTasks]int // nesting of encode-side map iterations the task is inside
	iterSupp  [MaxTasks]int // depth at which an iteration over more than one entry began (0 = none)
	onceDepth [MaxTasks]int // how many once functions (sync.Once.Do) the task is inside
	lastSite  [MaxTasks]int // the site of the task's previous yield and how often in a row
	sameSite  [MaxTasks]int
	started   [MaxTasks]bool
	cur       int
	stepCount int
	progress  int
	budget    int
	abort     int
	freeRun   bool
	stalled   int // task currently held back by the stall policy, or -1
	stallDone bool
	phase     int
	prio      [MaxTasks]int
	change    [8]int
	nchange   int

	PoolSeam bool
	PoolBias int // percentage of Gets that prefer a recycled scratch when one is available
	poolKeys [maxPools]*sync.Pool
	poolLst  [maxPools][maxPoolLen]unsafe.Pointer
	poolMu   [maxPools][maxPoolLen]*sync.Mutex // per-item Put->Get edge, the one sync.Pool itself provides
	poolLen  [maxPools]int
	npools   int

	trace  []uint16
	ntrace int
	Pairs  []uint32 // [fromSite*NumSites+toSite] count of hand-offs: site the preempted task was at x first site the next task executes
	lastSw int      // site at which the last hand-off happened, -1 if none pending
	St     Stats

	panics [MaxTasks]interface{}
}

var (
	active *Sim
	pipes  [MaxTasks][2]int
	pipeOK bool
)

func makePipes() {
	for i := range pipes {
		if pipeOK {
			syscall.Close(pipes[i][0])
			syscall.Close(pipes[i][1])
		}
		var p [2]int
		if err := syscall.Pipe(p[:]); err != nil {
			panic(err)
		}
		pipes[i] = p
	}
	pipeOK = true
}

// Install sets the plenc hooks to the simulator's. Safe to call repeatedly.
func Install() {
	if !pipeOK {
		makePipes()
	}
	plenccore.VerifHooks.Yield = yieldHook
	plenccodec.VerifHooks.PoolGet = poolGet
	plenccodec.VerifHooks.PoolPut = poolPut
}

// Options for one run.
type Options struct {
	Seed     uint64
	Policy   Policy
	Sites    []string // enabled yield sites; nil = all
	Forced   []Dec    // if non-nil, decisions are taken from here (default when exhausted or infeasible)
	UseForce bool
	Budget   int
	PoolSeam bool
	PoolBias int
}

func New(n int, o Options) *Sim {
	if n > MaxTasks {
		panic("too many tasks")
	}
	s := &Sim{N: n, rng: PRNG{S: o.Seed}, pol: o.Policy, polK: polKind(o.Policy.Kind)}
	s.sites = make([]bool, NumSites)
	if o.Sites == nil {
		for i := range s.sites {
			s.sites[i] = true
		}
	} else {
		for _, n := range o.Sites {
			s.sites[SiteID(n)] = true
		}
		s.sites[SiteMutexWait] = true // never optional: a task must not block for real
		s.sites[siteAutoSpin] = true  // nor spin for real
	}
	s.forced = o.Forced
	s.useF = o.UseForce
	s.decs = make([]Dec, maxDecs)
	s.trace = make([]uint16, maxTrace)
	s.Pairs = make([]uint32, NumSites*NumSites)
	s.budget = o.Budget
	if s.budget <= 0 {
		s.budget = 20000
	}
	s.cur = -1
	s.stalled = -1
	s.lastSw = -1
	s.PoolSeam = o.PoolSeam
	s.PoolBias = o.PoolBias
	s.St.Hash = 1469598103934665603
	s.St.SwitchHash = 1469598103934665603
	if s.polK == polPCT {
		// random priorities, D change points
		for i := 0; i < n; i++ {
			s.prio[i] = i
		}
		for i := n - 1; i > 0; i-- {
			j := s.rng.Intn(i + 1)
			s.prio[i], s.prio[j] = s.prio[j], s.prio[i]
		}
		est := o.Policy.Est
		if est <= 0 {
			est = 64 * n
		}
		d := o.Policy.D
		if d > len(s.change) {
			d = len(s.change)
		}
		for i := 0; i < d; i++ {
			s.change[i] = 1 + s.rng.Intn(est)
		}
		s.nchange = d
	}
	return s
}

// Decisions returns the decisions actually taken by the last run.
func (s *Sim) Decisions() []Dec { return append([]Dec(nil), s.decs[:s.ndecs]...) }

// Trace returns the recorded (task<<8|site) sequence (capped).
func (s *Sim) Trace() []uint16 { return append([]uint16(nil), s.trace[:s.ntrace]...) }

func (s *Sim) TaskPanic(i int) interface{} { return s.panics[i] }

// Run executes the task bodies under the scheduler. It returns when all have
// finished. stalled reports that the run had to fall back to free running
// because a task blocked outside the simulator's control.
func (s *Sim) Run(fns []func()) {
	if len(fns) != s.N {
		panic("task count")
	}
	Install()
	active = s
	loopIters = 0
	var wg sync.WaitGroup
	for i := range fns {
		wg.Add(1)
		go s.taskMain(i, fns[i], &wg)
	}
	s.start()
	done := make(chan struct{})
	go func() { wg.Wait(); close(done) }()
	last := -1
	idle := 0
	tick := time.NewTicker(100 * time.Millisecond)
	defer tick.Stop()
loop:
	for {
		select {
		case <-done:
			break loop
		case <-tick.C:
			st := s.stepsNow()
			if st != last {
				last = st
				idle = 0
				continue
			}
			idle++
			if idle == freeRunTicks && !s.isFreeRun() {
				// no step for a while: some task blocked for real. Let everybody run.
				s.goFreeRun()
			}
		}
	}
	active = nil
	s.St.Steps = s.steps()
	s.St.Decisions = s.ndecs
	s.St.Abort = s.abort
	s.St.FreeRun = s.freeRun
	if s.freeRun {
		makePipes() // stray wake-up bytes may be left in the pipes
	}
}

func (s *Sim) taskMain(id int, fn func(), wg *sync.WaitGroup) {
	defer wg.Done()
	defer s.onDone(id)
	defer func() {
		if r := recover(); r != nil {
			if _, ok := r.(AbortPanic); !ok {
				s.panics[id] = r
			}
		}
	}()
	park(id)
	s.markStarted(id)
	fn()
}

//go:norace
func (s *Sim) markStarted(id int) {
	s.started[id] = true
	if s.abort != 0 && !s.freeRun {
		panic(AbortPanic{s.abort})
	}
}

//go:norace
func (s *Sim) stepsNow() int { return s.stepCount }

//go:norace
func (s *Sim) steps() int { return s.stepCount }

//go:norace
func (s *Sim) isFreeRun() bool { return s.freeRun }

//go:norace
func (s *Sim) goFreeRun() {
	s.freeRun = true
	for i := 0; i < s.N; i++ {
		rawWrite(pipes[i][1])
	}
}

//go:norace
func (s *Sim) start() {
	first := s.pick(-1)
	if first < 0 {
		first = 0
	}
	s.cur = first
	rawWrite(pipes[first][1])
}

//go:norace
func park(id int) { rawRead(pipes[id][0]) }

//go:norace
func rawWrite(fd int) {
	var b [1]byte
	for {
		n, _, e := syscall.Syscall(syscall.SYS_WRITE, uintptr(fd), uintptr(unsafe.Pointer(&b[0])), 1)
		if e == syscall.EINTR || e == syscall.EAGAIN {
			continue
		}
		if n != 1 {
			panic("sim: pipe write failed")
		}
		return
	}
}

//go:norace
func rawRead(fd int) {
	var b [1]byte
	for {
		n, _, e := syscall.Syscall(syscall.SYS_READ, uintptr(fd), uintptr(unsafe.Pointer(&b[0])), 1)
		if e == syscall.EINTR || e == syscall.EAGAIN {
			continue
		}
		if n != 1 {
			panic("sim: pipe read failed")
		}
		return
	}
}

// Yield is the entry point for harness-owned yield sites (sim registry, op
// boundaries).
//
//go:norace
func Yield(site string) { yieldHook(site) }

// Solo mode: outside a simulated run (solo oracle, warm-up) the hooks pass
// through, but they still count, so that a decode that never returns - a
// damaged record met by a decoder with an endless loop - ends in a panic the
// oracle can recover instead of hanging the worker.
var (
	soloSteps int
	soloLimit int
)

// BeginSolo arms the solo step limit; EndSolo disarms it.
func BeginSolo(limit int) { soloSteps, soloLimit, loopIters = 0, limit, 0 }

// loopIters counts loop iterations of the code under test since the current
// run (or solo call) began; maxLoopIters is far beyond anything a scenario does.
var loopIters int

const maxLoopIters = 50000000

// freeRunTicks x 100 ms without a yield from anybody: the task holding the
// baton is blocked for real (in a primitive the simulator does not model).
// ShortenFreeRun: once a run of this process had to fall back, the following ones fall back
// after 0.2 s (the build evidently contains a blocking operation the simulator does not model).
func ShortenFreeRun() {
	if freeRunTicks > 2 {
		freeRunTicks = 2
	}
}

var freeRunTicks = func() int {
	if n, err := strconv.Atoi(os.Getenv("VERIF_FREERUN_TICKS")); err == nil && n > 0 {
		return n
	}
	return 8
}()

func EndSolo() { soloLimit = 0 }

//go:norace
func yieldHook(site string) {
	if len(site) == 9 && site == "auto.loop" {
		// the top of a loop body (autoyield): never a switch point, only a count,
		// so that a loop that never ends stops the run instead of hanging it
		loopIters++
		if loopIters > maxLoopIters {
			loopIters = 0
			if s := active; s != nil && !s.freeRun {
				s.abort = AbortBudget
			}
			panic(AbortPanic{AbortBudget})
		}
		return
	}
	s := active
	if s == nil {
		if soloLimit > 0 {
			soloSteps++
			if soloSteps > soloLimit {
				soloLimit = 0
				panic(AbortPanic{AbortBudget})
			}
		}
		return
	}
	if s.freeRun {
		return
	}
	t := s.cur
	if t < 0 {
		return
	}
	id := siteIndex[site]
	// Iterations over a Go map on the encode side happen in an order nobody
	// controls. One over more than one entry is a single step of the schedule:
	// the yield points inside it are ignored, so that a schedule never depends
	// on that order. (Iterations over zero or one entry are ordinary code.)
	switch id {
	case siteIterN, siteIter1:
		s.iterDepth[t]++
		if id == siteIterN && s.iterSupp[t] == 0 {
			s.iterSupp[t] = s.iterDepth[t]
		}
		return
	case siteIterEnd:
		if s.iterDepth[t] > 0 {
			if s.iterSupp[t] == s.iterDepth[t] {
				s.iterSupp[t] = 0
			}
			s.iterDepth[t]--
		}
		return
	case siteOpBegin:
		s.iterDepth[t], s.iterSupp[t], s.onceDepth[t] = 0, 0, 0
	case siteOnceEnter:
		s.onceDepth[t]++
		return
	case siteOnceLeave:
		if s.onceDepth[t] > 0 {
			s.onceDepth[t]--
		}
		s.progress++
		return
	case siteOnceWait:
		// about to call sync.Once.Do: it would block for real while another task is
		// inside a once function (the simulator does not tell Once objects apart:
		// a task waits while any other task is inside any once function)
		for s.otherInOnce(t) {
			s.onYield(t, SiteMutexWait)
			if s.freeRun {
				return
			}
		}
		id = SiteOther
	}
	if s.iterSupp[t] != 0 && id != SiteMutexWait && id != siteAutoSpin {
		return
	}
	if !s.sites[id] {
		return
	}
	s.onYield(t, id)
}

//go:norace
func (s *Sim) record(t, site int) {
	s.stepCount++
	if s.ntrace < maxTrace {
		s.trace[s.ntrace] = uint16(t<<8 | site)
		s.ntrace++
	}
	s.St.Hash = (s.St.Hash ^ uint64(t<<8|site)) * 1099511628211
	if s.lastSw >= 0 {
		s.Pairs[s.lastSw*NumSites+site]++
		s.lastSw = -1
	}
}

//go:norace
func (s *Sim) onYield(t, site int) {
	if s.abort != 0 {
		panic(AbortPanic{s.abort})
	}
	s.record(t, site)
	s.yields[t]++
	// a task that keeps yielding at one and the same unknown or automatic site (a wait loop of a
	// kind the rewriter does not recognise, a seam somebody added) is treated like a spinning one
	if site == s.lastSite[t] {
		s.sameSite[t]++
	} else {
		s.lastSite[t], s.sameSite[t] = site, 1
	}
	waiting := site == siteAutoSpin || (s.sameSite[t] > 32 && (site == SiteOther || (site >= siteAutoFirst && site <= siteOnceLeave)))
	if site == SiteMutexWait || (waiting && s.otherEligible(t)) {
		// waiting for a lock, or going round a loop that waits on a synchronisation
		// operation (a spin lock of the code's own) while somebody else could run:
		// not runnable again until another task has made progress. A spinning task
		// with nobody else to run just goes on (if it never leaves the loop, that is
		// a livelock and the step budget says so).
		s.St.MutexWaits++
		s.blocked[t] = true
		s.blockedAt[t] = s.progress
	} else {
		s.blocked[t] = false
		s.progress++
	}
	if s.stepCount > s.budget {
		s.abort = AbortBudget
		panic(AbortPanic{s.abort})
	}
	// in-flight measure: tasks that have started and are not done
	inflight := 0
	for i := 0; i < s.N; i++ {
		if s.started[i] && s.state[i] == stReady {
			inflight++
		}
	}
	if inflight > s.St.MaxInFlight {
		s.St.MaxInFlight = inflight
	}
	next := s.pick(t)
	if next < 0 {
		// every remaining task is waiting for a lock nobody can release
		s.abort = AbortDeadlock
		panic(AbortPanic{s.abort})
	}
	if next == t {
		return
	}
	s.St.Switches++
	s.St.SwitchHash = (s.St.SwitchHash ^ uint64(s.stepCount<<8|t<<4|next)) * 1099511628211
	s.lastSw = site
	s.cur = next
	rawWrite(pipes[next][1])
	park(t)
	if s.freeRun {
		return
	}
	if s.abort != 0 {
		panic(AbortPanic{s.abort})
	}
}

//go:norace
func (s *Sim) onDone(t int) {
	if s.freeRun {
		s.state[t] = stDone
		return
	}
	s.state[t] = stDone
	s.blocked[t] = false
	s.progress++
	s.lastSw = -1
	next := s.pick(-1)
	if next < 0 {
		// either all done, or only deadlocked tasks remain
		for i := 0; i < s.N; i++ {
			if s.state[i] == stReady {
				s.abort = AbortDeadlock
				next = i
				break
			}
		}
		if next < 0 {
			s.cur = -1
			return
		}
	}
	s.cur = next
	rawWrite(pipes[next][1])
}

//go:norace
func (s *Sim) otherInOnce(t int) bool {
	for i := 0; i < s.N; i++ {
		if i != t && s.onceDepth[i] > 0 && s.state[i] == stReady {
			return true
		}
	}
	return false
}

//go:norace
func (s *Sim) otherEligible(t int) bool {
	for i := 0; i < s.N; i++ {
		// a task the stall policy holds back counts: pick releases it when nobody else can run
		if i != t && s.state[i] == stReady && !(s.blocked[i] && s.progress <= s.blockedAt[i]) {
			return true
		}
	}
	return false
}

//go:norace
func (s *Sim) eligible(i int) bool {
	if s.state[i] != stReady || i == s.stalled {
		return false
	}
	if s.blocked[i] && s.progress <= s.blockedAt[i] {
		return false
	}
	return true
}

// pick decides who runs next. cur is the task at a yield point, or -1 when the
// previous holder has finished (or at the start).
//
//go:norace
func (s *Sim) pick(cur int) int {
	// stall policy: hold the chosen task back at its StallAt-th yield
	if s.polK == polStall && !s.stallDone && cur == s.pol.StallTask && s.yields[cur] >= s.pol.StallAt {
		s.stalled = cur
		s.stallDone = true
		s.St.Stalls++
	}
	var el [MaxTasks]int
	n := 0
	for i := 0; i < s.N; i++ {
		if s.eligible(i) {
			el[n] = i
			n++
		}
	}
	if n == 0 && s.stalled >= 0 {
		// nobody else can run: release the stalled task
		i := s.stalled
		s.stalled = -1
		if s.state[i] == stReady {
			return i
		}
	}
	if n == 0 {
		return -1
	}
	if n == 1 {
		return el[0]
	}
	// default option: stay on cur if possible, else lowest id
	def := el[0]
	curOK := false
	for i := 0; i < n; i++ {
		if el[i] == cur {
			curOK = true
			def = cur
		}
	}
	var choice int
	if s.useF {
		choice = def
		if s.fpos < len(s.forced) {
			d := s.forced[s.fpos]
			s.fpos++
			ok := false
			if d.Kind() == 's' {
				for i := 0; i < n; i++ {
					if el[i] == d.Val() {
						ok = true
					}
				}
			}
			if ok {
				choice = d.Val()
			} else if !(d.Kind() == 's' && d.Val() == -1) {
				s.St.Mismatch++
			}
		}
	} else {
		switch s.polK {
		case polSerial:
			choice = def
		case polRandom:
			choice = el[s.rng.Intn(n)]
		case polSticky:
			p := s.pol.P
			if p <= 0 {
				p = 8
			}
			if curOK && s.rng.Intn(p) != 0 {
				choice = cur
			} else {
				// uniform among the others
				k := s.rng.Intn(n)
				choice = el[k]
				if choice == cur && n > 1 {
					choice = el[(k+1)%n]
				}
			}
		case polPCT:
			for i := 0; i < s.nchange; i++ {
				if s.change[i] == s.stepCount && cur >= 0 {
					// demote the current task below everyone
					min := s.prio[0]
					for j := 1; j < s.N; j++ {
						if s.prio[j] < min {
							min = s.prio[j]
						}
					}
					s.prio[cur] = min - 1
				}
			}
			choice = el[0]
			for i := 1; i < n; i++ {
				if s.prio[el[i]] > s.prio[choice] {
					choice = el[i]
				}
			}
		case polStall:
			// random among eligible (the stalled task is not eligible)
			choice = el[s.rng.Intn(n)]
		case polSweep:
			a, b := s.pol.SweepA, s.pol.SweepB
			if s.phase == 0 && cur == a && s.yields[a] >= s.pol.SweepI {
				s.phase = 1
			}
			if s.phase == 1 && s.pol.SweepJ > 0 && cur == b && s.yields[b] >= s.pol.SweepJ {
				s.phase = 2
			}
			first, second := a, b
			if s.phase == 1 {
				first, second = b, a
			}
			choice = -1
			for i := 0; i < n; i++ {
				if el[i] == first {
					choice = first
				}
			}
			if choice < 0 {
				for i := 0; i < n; i++ {
					if el[i] == second {
						choice = second
					}
				}
			}
			if choice < 0 {
				choice = def
			}
		}
	}
	if s.ndecs < maxDecs {
		s.decs[s.ndecs] = MkDec('s', choice)
		s.ndecs++
	}
	return choice
}

// choose takes a non-schedule decision among n options on behalf of the baton
// holder.
//
//go:norace
func (s *Sim) choose(kind byte, n int, def int, draw int) int {
	choice := draw
	if s.useF {
		choice = def
		if s.fpos < len(s.forced) {
			d := s.forced[s.fpos]
			s.fpos++
			if d.Kind() == kind && d.Val() >= 0 && d.Val() < n {
				choice = d.Val()
			} else if !(d.Kind() == kind && d.Val() == -1) {
				s.St.Mismatch++
			}
		}
	}
	if s.ndecs < maxDecs {
		s.decs[s.ndecs] = MkDec(kind, choice)
		s.ndecs++
	}
	return choice
}

//go:norace
func (s *Sim) poolIndex(pool *sync.Pool) int {
	for i := 0; i < s.npools; i++ {
		if s.poolKeys[i] == pool {
			return i
		}
	}
	if s.npools == maxPools {
		return -1
	}
	s.poolKeys[s.npools] = pool
	s.npools++
	return s.npools - 1
}

// LastPoolRecycled is set by poolGet when it hands out a recycled scratch; the
// workload may read it (from the same task) to probe for dirty scratch.
var LastPoolRecycled unsafe.Pointer

//go:norace
func poolGet(pool *sync.Pool, fresh func() unsafe.Pointer, got unsafe.Pointer) unsafe.Pointer {
	s := active
	if s == nil || s.freeRun || s.cur < 0 || !s.PoolSeam {
		return got
	}
	pi := s.poolIndex(pool)
	if pi < 0 {
		return got
	}
	n := s.poolLen[pi]
	draw := 0
	if n > 0 && s.rng.Intn(100) < s.PoolBias {
		draw = 1 + s.rng.Intn(n)
	} else {
		s.rng.Intn(2) // keep the stream aligned whichever branch is taken
	}
	def := 0
	if n > 0 {
		def = 1
	}
	c := s.choose('g', n+1, def, draw)
	if c == 0 {
		s.St.PoolFresh++
		LastPoolRecycled = nil
		return fresh()
	}
	idx := n - c
	k := s.poolLst[pi][idx]
	mu := s.poolMu[pi][idx]
	for j := idx; j < n-1; j++ {
		s.poolLst[pi][j] = s.poolLst[pi][j+1]
		s.poolMu[pi][j] = s.poolMu[pi][j+1]
	}
	s.poolLst[pi][n-1] = nil
	s.poolMu[pi][n-1] = nil
	// acquire: everything the previous holder did before Put happens before this Get
	mu.Lock()
	mu.Unlock()
	s.poolLen[pi] = n - 1
	s.St.PoolRecycled++
	LastPoolRecycled = k
	return k
}

//go:norace
func poolPut(pool *sync.Pool, k unsafe.Pointer) {
	s := active
	if s == nil || s.freeRun || s.cur < 0 || !s.PoolSeam {
		return
	}
	pi := s.poolIndex(pool)
	if pi < 0 {
		return
	}
	draw := 1
	if s.rng.Intn(10) == 0 {
		draw = 0
	}
	c := s.choose('p', 2, 1, draw)
	if c == 0 {
		s.St.PoolDrop++
		return
	}
	s.St.PoolKeep++
	n := s.poolLen[pi]
	if n == maxPoolLen {
		// drop the oldest
		for j := 0; j < n-1; j++ {
			s.poolLst[pi][j] = s.poolLst[pi][j+1]
			s.poolMu[pi][j] = s.poolMu[pi][j+1]
		}
		n--
	}
	s.poolLst[pi][n] = k
	mu := new(sync.Mutex)
	mu.Lock()
	mu.Unlock() // release
	s.poolMu[pi][n] = mu
	s.poolLen[pi] = n + 1
}
