#!/bin/bash
VDIR="$(dirname "$(dirname "$(realpath "$0")")")"
# mutant_sweep.sh <property> <patch>...   runs the quick check of a property against each patch
# (applied to /repo, reverted afterwards) and prints whether it was detected (exit 1).
prop="$1"; shift
for p in "$@"; do
  out=$("$VDIR"/tools/with_patch.sh "$p" "$VDIR"/run.sh "$prop" quick 2>&1); rc=$?
  first=$(echo "$out" | grep -A1 "^VIOLATION" | head -2 | tail -1 | cut -c1-160)
  printf "%-50s %s rc=%d %s\n" "$(basename $p)" "$prop" "$rc" "$first"
done
