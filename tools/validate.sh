#!/bin/bash
# validate.sh <quick seeds> <thorough seeds> [props...] : false-alarm sweep on the tree given by
# VERIF_REPO (default /repo): every check, many VERIF_SEED values; prints one line per run.
VDIR="$(dirname "$(dirname "$(realpath "$0")")")"
nq="${1:-10}"; nt="${2:-1}"; shift 2
props="${@:-C04 C07 C10 C11 C19}"
bad=0
for tier in quick thorough; do
  n=$nq; [ $tier = thorough ] && n=$nt
  for seed in $(seq ${VERIF_SEED_FROM:-1} $n); do
    for p in $props; do
      t0=$(date +%s)
      out=$(cd "$VDIR" && VERIF_SEED=$seed ./run.sh $p $tier 2>&1); rc=$?
      t1=$(date +%s)
      line=$(echo "$out" | grep "^done:" | tail -1)
      echo "$tier seed=$seed $p rc=$rc $((t1-t0))s $line"
      if [ $rc -ne 0 ]; then bad=$((bad+1)); echo "$out" | grep -v "^RUN" | grep -A1 "VIOLATION\|HARNESS" | head -8; fi
    done
  done
done
echo "validate: $bad non-zero exits"
exit $bad
