#!/bin/bash
# seed_intake.sh <worktree> <outdir> <seed-id> <property> <demo run regexp>
# Confirms a seeded change in its scratch worktree (suite passes with it, demo fails with it and
# passes without it) and stores patch + demo under /verif/seeded/<seed-id>/.
set -u
wt="$1"; out="$2"; id="$3"; prop="$4"; pat="${5:-.}"
export GOFLAGS=-mod=mod GOPROXY=off GOSUMDB=off GOTOOLCHAIN=local
dst=/verif/seeded/$id; mkdir -p "$dst"
git -C "$wt" diff > "$dst/patch.diff"
cp "$out"/demo_test.go "$dst/demo_test.go" 2>/dev/null || cp "$out"/demo*.go "$dst/" 
cp "$out"/DESCRIPTION.md "$dst/DESCRIPTION.md" 2>/dev/null
cd "$wt" || exit 2
echo "== build + suite with the change"
go build ./... || { echo BUILD-FAIL; exit 1; }
suite=$(go test -vet=off -count=1 ./... 2>&1 | grep -a "^--- FAIL\|^FAIL\|^ok" | tr '\n' ';')
echo "$suite"
cp "$dst/demo_test.go" ./zz_seed_demo_test.go
echo "== demo with the change (must fail)"
go test -vet=off -count=1 -run "$pat" . > /tmp/seed_demo_with.$$ 2>&1; with=$?
tail -3 /tmp/seed_demo_with.$$ | cut -c1-200
rm -f zz_seed_demo_test.go
git checkout -q -- .   # the change is saved in $dst/patch.diff (git stash is shared between worktrees: not used)
cp "$dst/demo_test.go" ./zz_seed_demo_test.go
echo "== demo without the change (must pass)"
go test -vet=off -count=1 -run "$pat" . > /tmp/seed_demo_without.$$ 2>&1; without=$?
tail -2 /tmp/seed_demo_without.$$ | cut -c1-200
rm -f zz_seed_demo_test.go
git apply "$dst/patch.diff"
rm -f /tmp/seed_demo_with.$$ /tmp/seed_demo_without.$$
echo "RESULT id=$id prop=$prop demo_with_change_exit=$with demo_without_change_exit=$without suite=[$suite]"
