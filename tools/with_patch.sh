#!/bin/bash
VDIR="$(dirname "$(dirname "$(realpath "$0")")")"
# with_patch.sh <patch.diff> <command...>
# Applies a patch to /repo's working tree, runs the command, and always reverts
# the working tree afterwards (git checkout + clean of files the patch added).
set -u
patch="$(realpath "$1")"; shift
cd /repo || exit 2
if ! git diff --quiet || ! git diff --cached --quiet; then echo "with_patch: /repo working tree is not clean" >&2; exit 2; fi
git apply --check "$patch" || { echo "with_patch: patch does not apply" >&2; exit 2; }
git apply "$patch"
cd "$VDIR"
"$@"
rc=$?
git -C /repo checkout -q -- . && git -C /repo clean -fdq
exit $rc
