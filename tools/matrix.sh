#!/bin/bash
VDIR="$(dirname "$(dirname "$(realpath "$0")")")"
# matrix.sh <outfile> <patch>...  : runs every patch against all five quick checks (reduced budgets)
# in a private scratch worktree of /repo (so /repo itself is not touched) and writes a table.
out="$1"; shift
wt=$(mktemp -d /tmp/mx.XXXXXX); rmdir "$wt"
git -C /repo worktree add -q --detach "$wt" HEAD || exit 2
export VERIF_REPO="$wt"
export VERIF_C07_RUNS=16000 VERIF_C07_RACE_RUNS=3000 VERIF_C10_RUNS=20000 VERIF_C10_RACE_RUNS=0 VERIF_C11_RUNS=20000 VERIF_C11_RACE_RUNS=2000 VERIF_C19_RUNS=20000 VERIF_C19_RACE_RUNS=3000 VERIF_C04_RECORDS=800 VERIF_C04_SHORT=32
echo "| change | C04 | C07 | C10 | C11 | C19 |" > "$out"; echo "|---|---|---|---|---|---|" >> "$out"
for p in "$@"; do
  name=$(echo "$p" | sed 's|.*/seeded/||; s|.*/mutants/||; s|/patch.diff||; s|.diff||')
  git -C "$wt" checkout -q -- . ; git -C "$wt" clean -fdq
  if ! git -C "$wt" apply "$(realpath $p)"; then echo "| $name | patch does not apply |" >> "$out"; continue; fi
  row="| $name"
  pre="$VDIR/bin/matrix-$$"
  if ! (cd "$VDIR" && ./run.sh --build-only "$pre" >/dev/null 2>&1); then echo "| $name | build failed |" >> "$out"; continue; fi
  for prop in C04 C07 C10 C11 C19; do
    o=$(cd "$VDIR" && VERIF_PREBUILT="$pre" ./run.sh $prop quick 2>&1); rc=$?
    kind=$(echo "$o" | grep -A1 "^VIOLATION" | sed -n 2p | awk '{print $1}')
    case $rc in 0) cell="-";; 1) cell="**$kind**";; *) cell="rc=$rc";; esac
    row="$row | $cell"
  done
  echo "$row |" >> "$out"
  echo "$row |"
  rm -f "$pre" "$pre-race"
done
git -C /repo worktree remove --force "$wt"
